---- MODULE Check_RealignOutcome ----
(* Property-level verdict on one run of the real realign_gaf under the deterministic scheduler,    *)
(* used when the run did not follow Realign.tla step for step (a differently structured but        *)
(* possibly correct parent): nothing about the parent's calls is assumed, only what C11 / C13      *)
(* state about the outcome.  c.R records; c.faults worker faults injected, c.early of them before the worker's end-of-batch marker had left it; c.end how the command   *)
(* ended; c.prios the priorities (1-based input positions) of the written records in order;        *)
(* c.lines / c.ref the written text and the single-core reference.                                  *)
EXTENDS Integers, Sequences, TLC, Json, IOUtils
Cases == ndJsonDeserialize(IOEnv.CASES)
VARIABLE i
Ident(n) == [k \in 1..n |-> k]
Verdict(c) ==
  IF c.end = "crashed" THEN "parent_crashed"
  ELSE IF c.end \in {"hang", "stuck"} THEN "does_not_terminate"
  ELSE IF c.natural > 0 /\ ~c.poison THEN "worker_fails_on_valid_input"      \* a worker's target raised although no fault was injected and every record is valid
  ELSE IF c.faults = 0 /\ c.end # "finished" THEN "fails_without_any_fault"
  ELSE IF c.end = "finished" /\ c.prios # Ident(c.R) THEN
       (IF c.faults > 0 THEN "success_reported_for_incomplete_output"
        ELSE IF Len(c.prios) < c.R THEN "records_dropped" ELSE "records_duplicated_or_reordered")
  ELSE IF c.end = "finished" /\ c.early > 0 THEN "success_reported_although_a_worker_died_in_its_batch"
  ELSE IF c.end = "finished" /\ c.lines # c.ref THEN "differs_from_single_core"
  ELSE IF c.end \notin {"finished", "aborted"} THEN "unexpected_end"
  ELSE "ok"
Init == i = 1
Next == /\ i <= Len(Cases)
        /\ PrintT(<<"VERDICT", Cases[i].id, Verdict(Cases[i])>>)
        /\ i' = i + 1
Spec == Init /\ [][Next]_i
AllConsumed == TLCGet("stats").diameter - 1 = Len(Cases)
====
