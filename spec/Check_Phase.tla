---- MODULE Check_Phase ----
(* Code -> spec for C20: one case = one `gaftools phase` run. c.inp / c.out are the records of  *)
(* the input and output files split into the 12 columns and the optional fields (split at the   *)
(* first two colons); c.tsv the haplotag rows.                                                   *)
EXTENDS Phase, IOUtils
Cases == ndJsonDeserialize(IOEnv.CASES)
VARIABLE i
PsHt == {<<"ps", "Z">>, <<"ht", "Z">>}
RemoveAt(s, at) == [k \in 1..(Len(s) - 1) |-> IF k < at THEN s[k] ELSE s[k + 1]]
RecVerdict(c, k) ==
  LET a == c.inp[k] b == c.out[k]
      P == {j \in 1..Len(b.opt) : b.opt[j][1] = "ps" /\ b.opt[j][2] = "Z"}
      H == {j \in 1..Len(b.opt) : b.opt[j][1] = "ht" /\ b.opt[j][2] = "Z"}
      \* the record GAINS one ps:Z and one ht:Z: removing one of each must leave the input's optional fields
      \* (an input that already carries ps:Z / ht:Z keeps them)
      gained == {<<p, h>> \in P \X H :
                   LET rest == IF p < h THEN RemoveAt(RemoveAt(b.opt, h), p) ELSE RemoveAt(RemoveAt(b.opt, p), h)
                       \* (ds:Z is the one tag gaftools is documented to drop when it re-emits a record: kept or dropped, both are fine)
                       NoDs(q) == SelectSeq(q, LAMBDA f : ~(f[1] = "ds" /\ f[2] = "Z"))
                   IN rest = a.opt \/ rest = NoDs(a.opt)}
  IN IF b.ncols < 12 \/ b.empty_fields THEN "malformed_line"
     ELSE IF b.cols # a.cols THEN (IF b.cols[5] # a.cols[5] THEN "strand_altered" ELSE "mandatory_column_altered")
     ELSE IF \E j \in 1..Len(b.opt) : ~FieldShapeOK(b.opt[j]) THEN "malformed_optional_field"
     ELSE IF P = {} \/ H = {} THEN "ps_ht_not_gained"
     ELSE IF gained = {} THEN "optional_fields_altered"
     ELSE IF ~\E g \in gained : <<b.opt[g[1]][3], b.opt[g[2]][3]>> \in Allowed(c.tsv, a.cols[1]) THEN "annotation_not_from_tsv"
     ELSE "ok"
Verdict(c) ==
  IF c.status # "ok" THEN "phase_failed_" \o c.status
  ELSE IF Len(c.out) # Len(c.inp) THEN "record_count_differs"
  ELSE LET bad == {k \in 1..Len(c.inp) : RecVerdict(c, k) # "ok"} IN
       IF bad = {} THEN "ok" ELSE RecVerdict(c, CHOOSE k \in bad : \A j \in bad : k <= j)
CInit == i = 1 /\ tsv = 1 /\ input = <<>> /\ loaded = 0 /\ table = <<>> /\ nout = 0 /\ annot = <<>>
CNext == /\ i <= Len(Cases)
         /\ PrintT(<<"VERDICT", Cases[i].id, Verdict(Cases[i])>>)
         /\ i' = i + 1 /\ UNCHANGED pvars
CSpec == CInit /\ [][CNext]_<<i, pvars>>
AllConsumed == TLCGet("stats").diameter - 1 = Len(Cases)
====
