---- MODULE Check_Phase ----
(* Code -> spec for C20: one case = one `gaftools phase` run. c.inp / c.out are the records of  *)
(* the input and output files split into the 12 columns and the optional fields (split at the   *)
(* first two colons); c.tsv the haplotag rows.                                                   *)
EXTENDS Phase, IOUtils
Cases == ndJsonDeserialize(IOEnv.CASES)
VARIABLE i
PsHt == {<<"ps", "Z">>, <<"ht", "Z">>}
RecVerdict(c, k) ==
  LET a == c.inp[k] b == c.out[k]
      ps == SelectSeq(b.opt, LAMBDA f : f[1] = "ps" /\ f[2] = "Z")
      ht == SelectSeq(b.opt, LAMBDA f : f[1] = "ht" /\ f[2] = "Z")
  IN IF b.ncols < 12 \/ b.empty_fields THEN "malformed_line"
     ELSE IF b.cols # a.cols THEN (IF b.cols[5] # a.cols[5] THEN "strand_altered" ELSE "mandatory_column_altered")
     ELSE IF \E j \in 1..Len(b.opt) : ~FieldShapeOK(b.opt[j]) THEN "malformed_optional_field"
     ELSE IF Without(b.opt, PsHt) # a.opt THEN "optional_fields_altered"
     ELSE IF Len(ps) # 1 \/ Len(ht) # 1 THEN "ps_ht_not_exactly_once"
     ELSE IF <<ps[1][3], ht[1][3]>> \notin Allowed(c.tsv, a.cols[1]) THEN "annotation_not_from_tsv"
     ELSE "ok"
Verdict(c) ==
  IF c.status # "ok" THEN "phase_failed_" \o c.status
  ELSE IF Len(c.out) # Len(c.inp) THEN "record_count_differs"
  ELSE LET bad == {k \in 1..Len(c.inp) : RecVerdict(c, k) # "ok"} IN
       IF bad = {} THEN "ok" ELSE RecVerdict(c, CHOOSE k \in bad : \A j \in bad : k <= j)
CInit == i = 1 /\ tsv = 1 /\ input = <<>> /\ loaded = 0 /\ table = <<>> /\ nout = 0 /\ annot = <<>>
CNext == /\ i <= Len(Cases)
         /\ PrintT(<<"VERDICT", Cases[i].id, Verdict(Cases[i])>>)
         /\ i' = i + 1 /\ UNCHANGED pvars
CSpec == CInit /\ [][CNext]_<<i, pvars>>
AllConsumed == TLCGet("stats").diameter - 1 = Len(Cases)
====
