---- MODULE Check_Frame ----
(* Code -> spec for Frame: one case = one session in a scratch directory; every invocation is recorded with *)
(* snapshots (path -> content hash) of the whole directory tree before and after it.  Snapshots must chain  *)
(* (nothing changes between invocations), every invocation must keep the frame, and the session's          *)
(* equalities (same call twice = same files; -o FILE = standard output) must hold.                          *)
EXTENDS Frame, Json, IOUtils
Cases == ndJsonDeserialize(IOEnv.CASES)
VARIABLE i

ToSetS(s) == {s[k] : k \in DOMAIN s}
MapOf(pairs) == [p \in {x[1] : x \in ToSetS(pairs)} |-> (CHOOSE x \in ToSetS(pairs) : x[1] = p)[2]]
Inv(e) == [cmd |-> e.cmd, ins |-> ToSetS(e.ins), out |-> e.out, extra |-> ToSetS(e.extra), dir |-> e.dir, must |-> ToSetS(e.must)]

EvVerdict(e) ==
  LET a == MapOf(e.before) b == MapOf(e.after) IN
  IF e.status = "ok" THEN StepVerdict(Inv(e), a, b) ELSE FailVerdict(Inv(e), a, b)

Verdict(c) ==
  LET ev == c.events
      bad == {k \in 1..Len(ev) : EvVerdict(ev[k]) # "ok"}
      gap == {k \in 2..Len(ev) : MapOf(ev[k].before) # MapOf(ev[k - 1].after)}
      unexpected_failure == {k \in 1..Len(ev) : ev[k].status # "ok" /\ ~ev[k].may_fail}
      eqbad == {k \in 1..Len(c.equal) : c.equal[k].a # c.equal[k].b}
  IN IF gap # {} THEN "harness_snapshots_do_not_chain"
     ELSE IF bad # {} THEN LET k == CHOOSE x \in bad : \A y \in bad : x <= y IN EvVerdict(ev[k]) \o "_" \o ev[k].cmd
     ELSE IF unexpected_failure # {} THEN LET k == CHOOSE x \in unexpected_failure : TRUE IN "command_failed_" \o ev[k].cmd
     ELSE IF eqbad # {} THEN LET k == CHOOSE x \in eqbad : \A y \in eqbad : x <= y IN c.equal[k].what
     ELSE "ok"

CInit == i = 1 /\ fs = <<>> /\ last = <<>>
CNext == /\ i <= Len(Cases)
         /\ PrintT(<<"VERDICT", Cases[i].id, Verdict(Cases[i])>>)
         /\ i' = i + 1 /\ UNCHANGED fvars
CSpec == CInit /\ [][CNext]_<<i, fvars>>
AllConsumed == TLCGet("stats").diameter - 1 = Len(Cases)
====
