SPECIFICATION TSpec
INVARIANT UsageIsInputIndependent
CHECK_DEADLOCK FALSE
