SPECIFICATION PSpec
CONSTANT MaxFile = 3
INVARIANT AnnotationsAllowed
CHECK_DEADLOCK FALSE
