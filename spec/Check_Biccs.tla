---- MODULE Check_Biccs ----
(* Code -> spec for Biccs: line-level traces of the UNMODIFIED GFA.biccs (recorded with sys.settrace: the   *)
(* local variables at every head of `while stack:`, after the loop, and at the next root / the return) are  *)
(* validated step by step: the first snapshot of a root must be Start, every next one Iter of the previous, *)
(* and what is returned must be what the last root's run computed.                                           *)
EXTENDS Biccs, Json, IOUtils
Cases == ndJsonDeserialize(IOEnv.CASES)
VARIABLE i

LinksOf(c) == {MkLink(l[1], l[2], l[3], l[4], l[5]) : l \in ToSet(c.links)}
(* projection of a specification state to the shape of a recorded snapshot *)
ProjStack(S0) == [k \in 1..Len(S0.stack) |-> <<S0.stack[k].p, S0.stack[k].c, S0.stack[k].i>>]
PairSet(f) == {<<a, f[a]>> : a \in DOMAIN f}
LocSet(f) == {<<e[1], e[2], f[e]>> : e \in DOMAIN f}
SnapVerdict(S0, s, withart) ==
  IF s.root # S0.root THEN "root"
  ELSE IF s.stack # ProjStack(S0) THEN "dfs_stack"
  ELSE IF s.es # S0.es THEN "edge_stack"
  ELSE IF ToSet(s.loc) # LocSet(S0.loc) THEN "edge_stack_loc"
  ELSE IF ToSet(s.disc) # PairSet(S0.disc) THEN "discovery"
  ELSE IF ToSet(s.low) # PairSet(S0.low) THEN "low"
  ELSE IF ToSet(s.vis) # S0.vis THEN "visited"
  ELSE IF s.rc # S0.rc THEN "root_children"
  ELSE IF [k \in 1..Len(s.comps) |-> ToSet(s.comps[k])] # S0.comps THEN "components"
  ELSE IF withart /\ ToSet(s.art) # S0.art THEN "artic_points"
  ELSE "ok"

(* one root's segment: snaps[1..n] taken at the loop head, `after` taken behind the loop, art_final at the next root / return *)
RECURSIVE Follow(_, _, _, _, _)
Follow(Nn, Ll, S0, snaps, k) ==
  IF k > Len(snaps) THEN [why |-> "ok", S |-> S0]
  ELSE LET v == SnapVerdict(S0, snaps[k], TRUE) IN
       IF v # "ok" THEN [why |-> "step_" \o v, S |-> S0]
       ELSE IF S0.done THEN [why |-> "loop_continues_after_spec_ended", S |-> S0]
       ELSE Follow(Nn, Ll, Iter(Nn, Ll, S0), snaps, k + 1)
SegVerdict(Nn, Ll, seg, V) ==
  LET r == Follow(Nn, Ll, StartFrom(seg.root, V), seg.snaps, 1) IN
  IF r.why # "ok" THEN r.why
  ELSE IF ~r.S.done THEN "loop_ended_before_spec"
  ELSE IF SnapVerdict(r.S, seg.after, FALSE) # "ok" THEN "after_loop_" \o SnapVerdict(r.S, seg.after, FALSE)
  ELSE IF ToSet(seg.art_final) # r.S.art THEN "root_articulation"
  ELSE "ok"

Verdict(c) ==
  LET Nn == ToSet(c.nodes)
      Ll == LinksOf(c)
      \* visited before the k-th root: the components of the earlier roots
      Before(k) == UNION {Reach(c.segs[j].root, Nn, Edges(Ll)) : j \in 1..(k - 1)}
      bad == {k \in 1..Len(c.segs) : SegVerdict(Nn, Ll, c.segs[k], Before(k)) # "ok"}
      roots == {c.segs[k].root : k \in 1..Len(c.segs)}
  IN IF c.exc # "" THEN "trace_exception"
     ELSE IF bad # {} THEN LET k0 == CHOOSE k \in bad : \A j \in bad : k <= j IN SegVerdict(Nn, Ll, c.segs[k0], Before(k0))
     ELSE IF Len(c.segs) # Cardinality(CompsOf(Nn, Edges(Ll))) THEN "number_of_roots"
     ELSE IF \E a, b \in 1..Len(c.segs) : a # b /\ c.segs[b].root \in Reach(c.segs[a].root, Nn, Edges(Ll)) THEN "two_roots_in_one_component"
     ELSE "ok"

CInit == i = 1 /\ N = {} /\ L = {} /\ S = <<>>
CNext == /\ i <= Len(Cases)
         /\ PrintT(<<"VERDICT", Cases[i].id, Verdict(Cases[i])>>)
         /\ i' = i + 1 /\ UNCHANGED bvars
CSpec == CInit /\ [][CNext]_<<i, bvars>>
AllConsumed == TLCGet("stats").diameter - 1 = Len(Cases)
====
