----------------------------- MODULE GafRecord -----------------------------
(* GAF optional fields TAG:TYPE:VALUE as sequences <<tag, type, value>>, what re-serialisation  *)
(* must preserve (C16), and a generator of well-formed field lists over a punctuation-rich      *)
(* alphabet (SAM tag grammar: A i f Z H B).                                                      *)
EXTENDS Integers, Sequences, FiniteSets, TLC

Alpha == {"a", "Z", "7", ".", "-", "+", "_", "#", ":", "*", "/", " ", "=", ","}
Strs1 == Alpha
Strs2 == {x \o y : x \in Alpha, y \in Alpha}
Strs3 == {x \o y : x \in Strs2, y \in Alpha}
ZVals(n) == {"", "{0} {} %s %d", "{\"k\":1}", "\\t\\n"} \cup Strs1 \cup (IF n >= 2 THEN Strs2 ELSE {}) \cup (IF n >= 3 THEN Strs3 ELSE {})
IVals == {"0", "5", "-5", "+5", "007", "-0", "2147483647"}
FVals == {"1.5", "-1.5", "+1.5", ".5", "1e-05", "1E+5", "-.5e3", "3"}
AVals == {"P", "!", "~", "a", "7", ":"}
HVals == {"", "1AE3", "00"}
BVals == {"i,1,2", "c,-1", "f,1.5,2e3", "C", "S,0"}
ValsOf(t, n) == CASE t = "Z" -> ZVals(n) [] t = "i" -> IVals [] t = "f" -> FVals [] t = "A" -> AVals [] t = "H" -> HVals [] t = "B" -> BVals
Types == {"Z", "i", "f", "A", "H", "B"}

IsCg(f) == f[1] = "cg" /\ f[2] = "Z"
IsDs(f) == f[1] = "ds" /\ f[2] = "Z"
NoCg(s) == SelectSeq(s, LAMBDA f : ~IsCg(f))
NoCgDs(s) == SelectSeq(s, LAMBDA f : ~IsCg(f) /\ ~IsDs(f))
(* keep the first occurrence of every <<tag, type>> *)
RECURSIVE Dedup(_, _)
Dedup(s, seen) == IF s = <<>> THEN <<>>
                  ELSE IF <<s[1][1], s[1][2]>> \in seen THEN Dedup(Tail(s), seen)
                  ELSE <<s[1]>> \o Dedup(Tail(s), seen \cup {<<s[1][1], s[1][2]>>})
HasRepeat(s) == \E a, b \in 1..Len(s) : a # b /\ s[a][1] = s[b][1] /\ s[a][2] = s[b][2]

(* verdict on the optional fields of one re-emitted record; cgfree: the emitting command may  *)
(* (re)write the CIGAR even if the input had none (realign)                                    *)
Mask(s) == [k \in 1..Len(s) |-> IF IsCg(s[k]) THEN <<"cg", "Z", "*">> ELSE s[k]]     \* the CIGAR value may be rewritten, its place may not
NoDs(s) == SelectSeq(s, LAMBDA f : ~IsDs(f))
HasCg(s) == \E k \in 1..Len(s) : IsCg(s[k])
TagsVerdict(inp, out, cgfree) ==
  IF NoCg(out) = NoCgDs(inp) THEN
       (IF ~cgfree /\ HasCg(out) /\ ~HasCg(inp) THEN "cigar_field_invented"
        ELSE IF Len(SelectSeq(out, IsCg)) > 1 THEN "cigar_field_duplicated"
        ELSE IF HasCg(inp) /\ ~HasCg(out) THEN "cigar_field_dropped"
        ELSE IF HasCg(inp) /\ Mask(out) # Mask(NoDs(inp)) THEN "cigar_field_moved"
        ELSE "ok")
  ELSE IF HasRepeat(NoCgDs(inp)) /\ NoCg(out) = Dedup(NoCgDs(inp), {}) THEN "repeated_tag_later_occurrence_dropped"
  ELSE IF \E k \in 1..Len(out) : ~IsCg(out[k]) /\ ~(\E j \in 1..Len(inp) : inp[j][1] = out[k][1] /\ inp[j][2] = out[k][2]) THEN "field_invented"
  ELSE IF \E j \in 1..Len(inp) : ~IsCg(inp[j]) /\ ~IsDs(inp[j]) /\ ~(\E k \in 1..Len(out) : inp[j][1] = out[k][1] /\ inp[j][2] = out[k][2]) THEN "field_dropped"
  ELSE IF \E k \in 1..Len(out) : IsDs(out[k]) THEN "ds_not_dropped"
  ELSE IF Len(NoCg(out)) = Len(NoCgDs(inp)) /\ (\A k \in 1..Len(NoCg(out)) : NoCg(out)[k][1] = NoCgDs(inp)[k][1] /\ NoCg(out)[k][2] = NoCgDs(inp)[k][2])
       THEN "value_altered"
  ELSE "order_or_multiplicity_altered"

(* generator: field lists *)
CONSTANTS MaxFields, ZLen, SecondRich
VARIABLES fields, cgpos           \* cgpos: 0 = no cg, k = cg is the k-th optional field
rvars == <<fields, cgpos>>
TagName(k, t) == CASE k = 1 -> "x" \o (IF t = "Z" THEN "z" ELSE t) [] k = 2 -> "yy" [] OTHER -> "w3"
RInit == fields = <<>> /\ cgpos = 0
AddField(t, v, rep) == /\ Len(fields) < MaxFields
                       /\ Len(fields) >= 1 => (SecondRich \/ v \in {"a:b", "-5", "1e-05", ":", "", "c,-1", "a", "5", "1.5", "P", "C", "00", "i,1,2", "{0} {} %s %d", "{\"k\":1}"})
                       /\ fields' = Append(fields, <<IF rep /\ fields # <<>> THEN fields[1][1] ELSE TagName(Len(fields) + 1, t), t, v>>)
                       /\ (rep => fields # <<>> /\ fields[1][2] = t)
                       /\ UNCHANGED cgpos
(* the same two-letter tag used with another TYPE (xs:i and xs:Z): two different fields, both must survive *)
AddSameName(t, v) == /\ Len(fields) < MaxFields /\ fields # <<>> /\ t # fields[1][2] /\ fields[1][1] \notin {"tp", "ds"}
                     /\ v \in {"a:b", "-5", "1e-05", "P", "00", "i,1,2"}
                     /\ fields' = Append(fields, <<fields[1][1], t, v>>) /\ UNCHANGED cgpos
AddDs == /\ Len(fields) < MaxFields /\ ~(\E k \in 1..Len(fields) : IsDs(fields[k]))      \* the (documented) dropped tag, at any position
         /\ fields' = Append(fields, <<"ds", "Z", "*+a3-cc:1">>) /\ UNCHANGED cgpos
(* the alignment-type tag the parser looks at (tp:A:P/p = primary, anything else = not primary), at any position *)
TpVals == {"P", "p", "S", "I", "s", "i"}
AddTp(v) == /\ Len(fields) < MaxFields /\ ~(\E k \in 1..Len(fields) : fields[k][1] = "tp")
            /\ fields' = Append(fields, <<"tp", "A", v>>) /\ UNCHANGED cgpos
SetCg(k) == cgpos = 0 /\ k \in 1..(Len(fields) + 1) /\ cgpos' = k /\ UNCHANGED fields
RNext == (\E t \in Types, rep \in BOOLEAN : \E v \in ValsOf(t, IF fields = <<>> THEN ZLen ELSE 1) \cup {"a:b"} : (t = "Z" \/ v # "a:b") /\ AddField(t, v, rep))
         \/ (\E k \in 1..(MaxFields + 1) : SetCg(k)) \/ AddDs \/ (\E v \in TpVals : AddTp(v))
         \/ (\E t \in Types : \E v \in ValsOf(t, 1) \cup {"a:b"} : (t = "Z" \/ v # "a:b") /\ AddSameName(t, v))
RSpec == RInit /\ [][RNext]_rvars
(* design sanity: identity re-serialisation is accepted, dropping or truncating is not *)
IdentityAccepted == TagsVerdict(fields, fields, FALSE) = (IF \E k \in 1..Len(fields) : IsDs(fields[k]) THEN "ds_not_dropped" ELSE "ok")
DropRejected == (fields # <<>> /\ ~IsDs(fields[1])) => TagsVerdict(fields, Tail(fields), FALSE) # "ok"
DsDropAccepted == TagsVerdict(fields, NoDs(fields), FALSE) = "ok"
=============================================================================
