SPECIFICATION CSpec
CONSTANT MaxFile = 0
POSTCONDITION AllConsumed
CHECK_DEADLOCK FALSE
