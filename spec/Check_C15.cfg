SPECIFICATION CSpec
CONSTANTS Ids = {}  Ovs = {}  TagVals = {}  Signs = {}  Simple = FALSE  MaxLinks = 0  MaxDels = 0
POSTCONDITION AllConsumed
CHECK_DEADLOCK FALSE
