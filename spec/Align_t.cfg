SPECIFICATION ASpec
CONSTANTS Walks <- WalksT  MaxEdits = 2  MaxSlice = 6
INVARIANT GeneratedValid
INVARIANT RunWiseAgrees
CHECK_DEADLOCK FALSE
