SPECIFICATION ASpec
CONSTANTS Walks <- WalksT  MaxEdits = 2  MaxSlice = 6
INVARIANT GeneratedValid
CHECK_DEADLOCK FALSE
