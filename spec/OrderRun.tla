------------------------------ MODULE OrderRun ------------------------------
(* The per-chromosome loop of `gaftools order_gfa` (run_order_gfa) as a machine, on top of the   *)
(* chain generator of BubbleChain:                                                                *)
(*    for every requested chromosome, in the requested order:                                     *)
(*        OrderChrom - the chromosome is a chain: its elements get BO = running index, running    *)
(*                     index advances by the number of elements; NO = 0 / lexicographic rank      *)
(*        SkipChrom  - it is not a chain: nothing is written, the running index is NOT touched    *)
(* TLC checks on every generated multi-chromosome graph and every request order:                  *)
(*    RunSatisfiesC06     the tags the machine writes satisfy ChainTagsClause and the ranges of   *)
(*                        the ordered chromosomes are disjoint and in request order (C06)         *)
(*    SkipIsolatedC18     the tags of the ordered chromosomes equal those of the run in which the *)
(*                        skipped chromosomes were never requested (C18)                          *)
(* (D17 was exactly a SkipChrom that overwrote the running index.)                                *)
EXTENDS BubbleChain

RECURSIVE Perms(_)
Perms(S) == IF S = {} THEN {<<>>} ELSE UNION {{<<x>> \o p : p \in Perms(S \ {x})} : x \in S}

ElemTags(ch, start) ==        \* node |-> <<BO, NO>> for one chain, numbered from `start` along the reference
  LET E == ch.elems
      idx(n) == CHOOSE k \in 1..Len(E) : n \in E[k].ns
  IN [n \in NodesOf(ch) |-> <<start + idx(n) - 1, IF E[idx(n)].k = "s" THEN 0 ELSE LexRank(n, E[idx(n)].ns)>>]

RECURSIVE Run(_, _, _)
Run(order, k, bo) ==          \* sequence of [c |-> chromosome index, tags |-> ..., skipped |-> BOOLEAN]
  IF k > Len(order) THEN <<>>
  ELSE LET ch == chroms[order[k]] IN
       IF ch.bad THEN <<[c |-> order[k], skipped |-> TRUE, tags |-> <<>>]>> \o Run(order, k + 1, bo)                  \* SkipChrom
       ELSE <<[c |-> order[k], skipped |-> FALSE, tags |-> ElemTags(ch, bo)]>> \o Run(order, k + 1, bo + Len(ch.elems))   \* OrderChrom

Closed == ~cur.open /\ chroms # <<>>
Orders == Perms(1..Len(chroms))
TagsOfRun(r) == [c \in {r[k].c : k \in {j \in 1..Len(r) : ~r[j].skipped}} |-> r[CHOOSE k \in 1..Len(r) : r[k].c = c].tags]

RunSatisfiesC06 == Closed =>
  \A o \in Orders :
     LET r == Run(o, 1, 0)
         good == SelectSeq(r, LAMBDA x : ~x.skipped)
     IN /\ \A k \in 1..Len(good) : ChainTagsClause(chroms[good[k].c], good[k].tags) = "ok"
        /\ \A k \in 1..(Len(good) - 1) :
              \A n \in DOMAIN good[k].tags, m \in DOMAIN good[k + 1].tags : good[k].tags[n][1] < good[k + 1].tags[m][1]

SkipIsolatedC18 == Closed =>
  \A o \in Orders :
     LET without == SelectSeq(o, LAMBDA c : ~chroms[c].bad)
     IN TagsOfRun(Run(o, 1, 0)) = TagsOfRun(Run(without, 1, 0))
=============================================================================
