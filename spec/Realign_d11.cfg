SPECIFICATION Spec
CONSTANTS R = 3  B = 1  C = 2  Cap = 2  MaxFaults = 0  FaultKinds = {}  Fixed = FALSE
INVARIANT TypeOK
INVARIANT NoCrash
INVARIANT OutPrefix
INVARIANT FinishedComplete
CHECK_DEADLOCK FALSE
