SPECIFICATION SSpec
CONSTANT MaxLen = 3
INVARIANT LessIsStrictTotal
INVARIANT SortedIsAccepted
INVARIANT GsiIsExact
CHECK_DEADLOCK FALSE
