------------------------------- MODULE Frame -------------------------------
(* Growth of the specification beyond the listed properties: the FILE-SYSTEM CONTRACT of the gaftools       *)
(* commands - what an invocation may create or change, what it must leave alone, and that an output file is  *)
(* REPLACED (the same call made twice leaves the same files; calling with -o FILE or reading standard output *)
(* gives the same text).  The file system is a function  path -> content id ; one action = one invocation.   *)
(*                                                                                                           *)
(* An invocation is a record  [cmd, ins, out, extra, dir]  :                                                 *)
(*   ins   - paths the command reads (must exist, must not change)                                           *)
(*   out   - the path given with -o / --outgaf ("" = none: standard output)                                  *)
(*   extra - further documented outputs: <GAF>.gvi or the -o of index, <outgaf>.gsi or --outind,             *)
(*           <fasta>.fai (the FASTA index pysam builds on first use)                                          *)
(*   dir   - an output DIRECTORY (order_gfa --outdir): anything below it may change, nothing else            *)
(* The same operators drive TLC on a small abstract file system (design check) and validate recorded         *)
(* before/after snapshots of real invocations (Check_Frame).                                                 *)
EXTENDS Integers, Sequences, FiniteSets, TLC

Under(dir, p) == dir # "" /\ Len(p) > Len(dir) /\ SubSeq(p, 1, Len(dir) + 1) = dir \o "/"
Declared(c) == (IF c.out = "" THEN {} ELSE {c.out}) \cup c.extra
MayChange(c, p) == p \in Declared(c) \/ Under(c.dir, p)
Changed(fs, fs2) == {p \in DOMAIN fs \cup DOMAIN fs2 : p \notin DOMAIN fs \/ p \notin DOMAIN fs2 \/ fs[p] # fs2[p]}

(* verdict on one invocation that reported success *)
StepVerdict(c, fs, fs2) ==
  IF \E p \in c.ins : p \notin DOMAIN fs THEN "harness_input_missing"
  ELSE IF \E p \in c.ins : p \notin DOMAIN fs2 \/ fs2[p] # fs[p] THEN "input_file_changed_or_removed"
  ELSE IF \E p \in Changed(fs, fs2) : ~MayChange(c, p) /\ p \in DOMAIN fs /\ p \notin DOMAIN fs2 THEN "bystander_file_removed"
  ELSE IF \E p \in Changed(fs, fs2) : ~MayChange(c, p) /\ p \in DOMAIN fs THEN "bystander_file_changed"
  ELSE IF \E p \in Changed(fs, fs2) : ~MayChange(c, p) THEN "undeclared_file_created"
  ELSE IF \E p \in c.must : p \notin DOMAIN fs2 THEN "declared_output_missing"
  ELSE "ok"
(* verdict on a failed invocation: it may leave partial outputs, but still only declared ones, and no input is touched *)
FailVerdict(c, fs, fs2) ==
  IF \E p \in c.ins : p \in DOMAIN fs /\ (p \notin DOMAIN fs2 \/ fs2[p] # fs[p]) THEN "input_file_changed_or_removed"
  ELSE IF \E p \in Changed(fs, fs2) : ~MayChange(c, p) THEN "bystander_touched_by_failed_run"
  ELSE "ok"

-----------------------------------------------------------------------------
(* design model: commands as total functions of the contents they read *)
CONSTANTS Paths
VARIABLES fs, last
fvars == <<fs, last>>
(* contents are numbers: 0 = no such file, 1..2 = given files, 3..5 = what a command wrote.  A deterministic command *)
(* writes a function of its name and of what it reads.                                                               *)
RECURSIVE SumOver(_, _)
SumOver(S, f) == IF S = {} THEN 0 ELSE LET x == CHOOSE y \in S : TRUE IN f[x] + SumOver(S \ {x}, f)
Mod3(x) == x - 3 * (x \div 3)
OutOf(c, f) == 3 + Mod3((IF c.cmd = "view" THEN 0 ELSE 1) + SumOver(c.ins, f))
Cmds == {[cmd |-> k, ins |-> i, out |-> o, extra |-> {}, dir |-> "", must |-> {o}] :
           k \in {"view", "stat"}, i \in (SUBSET Paths) \ {{}}, o \in Paths}
FInit == fs \in [Paths -> 0..2] /\ last = <<>>
Present(f) == {p \in Paths : f[p] # 0}
Run(c) == /\ c.ins \subseteq Present(fs) /\ c.out \notin c.ins
          /\ fs' = [fs EXCEPT ![c.out] = OutOf(c, fs)]           \* replaced, whatever was there
          /\ last' = c
FNext == \E c \in Cmds : Run(c)
FSpec == FInit /\ [][FNext]_fvars
AsMap(f) == [p \in Present(f) |-> f[p]]
(* every step of the design satisfies the contract, and a repeated call changes nothing *)
StepsKeepFrame == [][\A c \in Cmds : Run(c) => StepVerdict(c, AsMap(fs), AsMap(fs')) = "ok"]_fvars
Idempotent == [][\A c \in Cmds : (Run(c) /\ last = c) => fs' = fs]_fvars
=============================================================================
