---- MODULE Check_C14 ----
(* Code -> spec for C14: every case is one graph (a reachable state of GfaStore, written as a *)
(* GFA file and loaded by gaftools) with the results of GFA.extract_path and of the           *)
(* find_path command for *all* step lists up to length c.k.                                   *)
EXTENDS RGFA, TLC, Json, IOUtils
Cases == ndJsonDeserialize(IOEnv.CASES)
VARIABLE i

ToSet(s) == {s[k] : k \in DOMAIN s}
LinksOf(c) == {[ends |-> {<<l[1], l[2]>>, <<l[3], l[4]>>}, ov |-> l[5]] : l \in ToSet(c.links)}
StepsOf(c) == {">", "<"} \X ToSet(c.nodes)
AllPaths(c) == UNION {[1..k -> StepsOf(c)] : k \in 1..c.k}
Expected(c, p) == IF IsWalk(ToSet(c.nodes), LinksOf(c), p) THEN Spell(c.seq, p) ELSE ""

Verdict(c) ==
  LET N == Len(c.res) IN
  IF {c.res[k].p : k \in 1..N} # AllPaths(c) \/ N < Cardinality(AllPaths(c)) THEN "harness_paths_incomplete"   \* (some paths are listed twice on purpose)
  ELSE IF \E k \in 1..N : c.res[k].lib # Expected(c, c.res[k].p) THEN
       (IF \E k \in 1..N : c.res[k].lib # "" /\ ~IsWalk(ToSet(c.nodes), LinksOf(c), c.res[k].p) THEN "lib_nonwalk_spelled"
        ELSE IF \E k \in 1..N : c.res[k].lib = "" /\ IsWalk(ToSet(c.nodes), LinksOf(c), c.res[k].p) THEN "lib_walk_rejected"
        ELSE "lib_wrong_sequence")
  ELSE IF \E k \in 1..N : c.res[k].lib # "" /\ c.res[k].librev # RevComp(c.res[k].lib) THEN "lib_reverse_walk"
  ELSE IF c.cli_status # "ok" THEN "cli_failed"
  ELSE IF Len(c.cli_plain) # N \/ Len(c.cli_fasta) # 2 * N THEN "cli_record_count"
  ELSE IF \E k \in 1..N : c.cli_plain[k] # Expected(c, c.res[k].p) THEN "cli_plain_wrong"
  ELSE IF \E k \in 1..N : c.cli_fasta[2 * k] # Expected(c, c.res[k].p) THEN "cli_fasta_wrong"
  ELSE IF \E k \in 1..N : c.cli_fasta[2 * k - 1] # ">seq_" \o PathStr(c.name, c.res[k].p) THEN "cli_fasta_name"
  ELSE IF \E k \in 1..Len(c.single) : c.single[k].out # Expected(c, c.single[k].p) THEN "cli_single_path"
  ELSE IF c.big_out # c.big_in THEN "one_record_per_path_fails_for_a_large_paths_file"      \* (0 = 0 when no such file was made)
  ELSE "ok"

Init == i = 1
Next == /\ i <= Len(Cases)
        /\ PrintT(<<"VERDICT", Cases[i].id, Verdict(Cases[i])>>)
        /\ i' = i + 1
Spec == Init /\ [][Next]_i
AllConsumed == TLCGet("stats").diameter - 1 = Len(Cases)
====
