------------------------------- MODULE RGFA -------------------------------
(* Shared vocabulary for sequence graphs with node sides.                    *)
(* A node has two sides: 0 = start, 1 = end.  A link joins two node sides    *)
(* and carries an overlap:  [ends |-> {<<a, sa>>, <<b, sb>>}, ov |-> n]       *)
(* (one element in ends for a link from a side to itself).                   *)
(* The GFA line  L a ao b bo  joins side Out(ao) of a with side In(bo) of b.  *)
EXTENDS Integers, Sequences, FiniteSets

OutSide(sign) == IF sign = "+" THEN 1 ELSE 0     \* side through which an oriented node is left
InSide(sign)  == IF sign = "+" THEN 0 ELSE 1     \* side through which an oriented node is entered
MkLink(a, ao, b, bo, ov) == [ends |-> {<<a, OutSide(ao)>>, <<b, InSide(bo)>>}, ov |-> ov]

LinkNodes(l) == {e[1] : e \in l.ends}
Edges(L) == {LinkNodes(l) : l \in L}             \* node sets of size 2, or 1 for self-links

(* directed half-edges <<n, s, m, t, ov>>: side s of n is joined to side t of m *)
HalfEdges(L) == UNION {{<<x[1], x[2], y[1], y[2], l.ov>> : x \in l.ends, y \in l.ends} \
                        (IF Cardinality(l.ends) = 2 THEN {<<x[1], x[2], x[1], x[2], l.ov>> : x \in l.ends} ELSE {})
                       : l \in L}

----------------------------------------------------------------------------
(* Walks and spelling.  A step is <<o, id>> with o \in {">", "<"}.           *)
StepSign(o) == IF o = ">" THEN "+" ELSE "-"
FlipO(o) == IF o = ">" THEN "<" ELSE ">"
Joins(L, s, t) == \E l \in L : l.ends = {<<s[2], OutSide(StepSign(s[1]))>>, <<t[2], InSide(StepSign(t[1]))>>}
IsWalk(N, L, p) == /\ \A k \in 1..Len(p) : p[k][2] \in N
                   /\ \A k \in 1..(Len(p) - 1) : Joins(L, p[k], p[k + 1])
RevWalk(p) == [k \in 1..Len(p) |-> <<FlipO(p[Len(p) + 1 - k][1]), p[Len(p) + 1 - k][2]>>]

(* Base strings are TLA+ strings (TLC evaluates Len, SubSeq and \o on them). *)
Comp(b) == CASE b = "A" -> "T" [] b = "C" -> "G" [] b = "G" -> "C" [] b = "T" -> "A" [] OTHER -> b
RECURSIVE RevComp(_)
RevComp(s) == IF Len(s) = 0 THEN "" ELSE RevComp(SubSeq(s, 2, Len(s))) \o Comp(SubSeq(s, 1, 1))
RECURSIVE Spell(_, _)
Spell(seq, p) == IF p = <<>> THEN ""
                 ELSE (IF p[1][1] = ">" THEN seq[p[1][2]] ELSE RevComp(seq[p[1][2]])) \o Spell(seq, Tail(p))
RECURSIVE PathStr(_, _)
PathStr(name, p) == IF p = <<>> THEN "" ELSE p[1][1] \o name[p[1][2]] \o PathStr(name, Tail(p))

----------------------------------------------------------------------------
(* Connectivity, declaratively.  Ed is a set of node sets (Edges(L)).        *)
RECURSIVE ReachFrom(_, _, _, _)
ReachFrom(front, seen, S, Ed) ==
  LET nxt == {m \in S \ seen : \E n \in front : {n, m} \in Ed}
  IN IF nxt = {} THEN seen ELSE ReachFrom(nxt, seen \cup nxt, S, Ed)
Reach(s, S, Ed) == ReachFrom({s}, {s}, S, Ed)
RECURSIVE CompsOf(_, _)
CompsOf(S, Ed) == IF S = {} THEN {}
                  ELSE LET s == CHOOSE x \in S : TRUE
                           K == Reach(s, S, Ed)
                       IN {K} \cup CompsOf(S \ K, Ed)
Connected(S, Ed) == Cardinality(CompsOf(S, Ed)) <= 1

(* Blocks (biconnected components, as node sets of size >= 2) and articulation points of a  *)
(* connected node set C: v is an articulation point iff removing it disconnects C; two nodes *)
(* are in a common block iff no third node separates them (pairwise form, memoised tables).  *)
Decomp(C, Ed) ==
  LET comp == [c \in C |-> CompsOf(C \ {c}, Ed)]
      Together(a, b, c) == \E K \in comp[c] : a \in K /\ b \in K
      Sim(a, b) == a # b /\ \A c \in C \ {a, b} : Together(a, b, c)
      simset == [a \in C |-> {b \in C : Sim(a, b)}]
      pairs == {q \in C \X C : q[1] # q[2] /\ q[2] \in simset[q[1]]}
  IN [blocks |-> {({p[1], p[2]} \cup (simset[p[1]] \cap simset[p[2]])) : p \in pairs},
      artic  |-> {c \in C : Cardinality(comp[c]) > 1}]

(* the textbook definition, used to cross-check Decomp on small graphs *)
Bicon(S, Ed) == /\ Cardinality(S) >= 2 /\ Connected(S, Ed)
                /\ (Cardinality(S) = 2 => S \in Ed)
                /\ (Cardinality(S) > 2 => \A v \in S : Connected(S \ {v}, Ed))
BlocksByDef(C, Ed) == LET B == {S \in SUBSET C : Bicon(S, Ed)}
                      IN {S \in B : ~\E T \in B : S # T /\ S \subseteq T}
=============================================================================
