SPECIFICATION QSpec
CONSTANTS Ids = {1, 2, 3}  Ovs = {0}  TagVals <- NoTags  Signs <- Plus  Simple = FALSE  MaxLinks = 3  MaxDels = 1  MaxQ = 2  Sizes = {0, 1}
INVARIANT VisInNodes
INVARIANT CleanIsExact
INVARIANT DirtyIsInduced
INVARIANT BfsDefaultIsStartOnly
INVARIANT BfsCleanIsComponent
INVARIANT DfsIsComponent
INVARIANT LonelyLaw
INVARIANT GfaPathDefined
INVARIANT Symmetric
INVARIANT NoDangling
PROPERTY AllComponentsCleans
PROPERTY FlagsOnlyGrow
CHECK_DEADLOCK FALSE
