------------------------------ MODULE CliTable ------------------------------
(* Growth of the specification beyond the listed properties: the OUTCOME CLASS of every combination of      *)
(* options of the commands - which requests are usage errors (argparse: exit status 2, nothing touched),     *)
(* which are refused with an error message (CommandLineError / sys.exit(1): exit status 1), which succeed   *)
(* and with how many records.  The listed properties quantify over inputs of SUCCESSFUL requests; this       *)
(* module states where success ends.  One state = one request; TLC enumerates the product of the option      *)
(* domains, the harness makes every request against real files and TLC (Check_Cli) compares.                 *)
(*                                                                                                            *)
(*   "ok"        exit status 0, the declared output exists                                                    *)
(*   "usage"     exit status 2 (validate() / argparse), no output file is created                             *)
(*   "error"     exit status 1 with a message (an output file may have been opened already)                  *)
(*   "exception" an uncaught Python exception - never the specified outcome of a request; the one place      *)
(*               where the code does this on a well-formed request is a NAMED deviation (E3 below)           *)
EXTENDS Integers, Sequences, FiniteSets, TLC

(* ---- view ---- *)
ViewReqs == [infmt : {"u", "s"}, gfa : BOOLEAN, fmt : {"none", "stable", "unstable", "bogus"},
             nodes : {"none", "hit", "miss", "two"}, regions : {"none", "hit", "miss"}, index : {"default", "explicit", "absent"}]
Selecting(r) == r.nodes # "none" \/ r.regions # "none"
ViewOutcome(r) ==
  IF r.fmt = "bogus" THEN "usage"
  ELSE IF r.nodes # "none" /\ r.regions # "none" THEN "usage"              \* either --node or --region
  ELSE IF r.fmt # "none" /\ ~r.gfa THEN "usage"                            \* a conversion needs the graph
  ELSE IF r.fmt = "stable" /\ r.infmt = "s" THEN "error"                   \* already in that coordinate system
  ELSE IF r.fmt = "unstable" /\ r.infmt = "u" THEN "error"
  ELSE IF Selecting(r) /\ r.index = "absent" THEN "error"                  \* no index found
  ELSE IF r.nodes = "miss" \/ r.regions = "miss" THEN "error"              \* a selection that matches nothing
  ELSE "ok"
(* number of records of a successful view: all of them, or those of the selection (counts given by the harness's file) *)
ViewCount(r, n) == IF r.nodes = "hit" THEN n.node_hit ELSE IF r.nodes = "two" THEN n.node_two
                   ELSE IF r.regions = "hit" THEN n.region_hit ELSE n.all

(* ---- sort ---- *)
SortReqs == [infmt : {"u", "s"}, outgaf : BOOLEAN, bgzip : BOOLEAN, outind : BOOLEAN]
SortOutcome(r) ==
  IF r.bgzip /\ ~r.outgaf THEN "usage"
  ELSE IF r.outind /\ ~r.outgaf THEN "usage"
  ELSE IF r.infmt = "s" THEN "exception"      \* E3 (named deviation): stable coordinates are not refused, the lookup of the contig name
                                              \* among the segments raises KeyError
  ELSE "ok"

(* ---- order_gfa ---- *)
OrderReqs == [order : {"all", "one", "unknown", "absent", "twice"}, bychrom : BOOLEAN, outdir : {"existing", "new", "nested"}, withseq : BOOLEAN]
OrderOutcome(r) ==
  IF r.order = "twice" /\ ~r.bychrom THEN "exception"      \* E5 (named deviation): a name given twice is not refused; the merge of the
                                                           \* per-chromosome files removes the same file twice (FileNotFoundError)
  ELSE IF r.order = "unknown" THEN "error"          \* a name that is no component of the graph
  ELSE IF r.order = "absent" THEN "error"      \* the default order needs exactly chr1..chr22, chrX, chrY, chrM
  ELSE "ok"

(* ---- index ---- *)
IndexReqs == [infmt : {"u", "s"}, out : {"default", "explicit"}, gz : BOOLEAN]
IndexOutcome(r) == "ok"

(* ---- find_path ---- *)
(* a path that is no walk of the graph (a missing link, an unknown node behind the first step) is answered with an EMPTY sequence *)
(* and success; only an unknown FIRST node is looked up before the walk test                                                       *)
PathReqs == [arg : {"walk", "file", "nonwalk", "unknown_later", "unknown_first", "empty_file"}, fasta : BOOLEAN, out : BOOLEAN]
PathOutcome(r) == IF r.arg = "unknown_first" THEN "exception"      \* E4 (named deviation): KeyError instead of a message
                  ELSE "ok"
PathLines(r) == LET k == IF r.arg = "file" THEN 3 ELSE IF r.arg = "empty_file" THEN 0 ELSE 1 IN IF r.fasta THEN 2 * k ELSE k

(* ---- stat, phase, realign: no option changes the outcome class; an input file that does not exist does ---- *)
StatReqs == [gaf : {"records", "empty", "missing"}, cigar : BOOLEAN, out : BOOLEAN, gz : BOOLEAN]
StatOutcome(r) == IF r.gaf = "missing" THEN "exception"         \* E6 (named deviation, all commands): a file name that does not exist
                  ELSE "ok"                                     \* ends in FileNotFoundError, not in a message
PhaseReqs == [gaf : {"records", "empty"}, tsv : {"rows", "empty", "missing"}, out : BOOLEAN]
PhaseOutcome(r) == IF r.tsv = "missing" THEN "exception" ELSE "ok"       \* E6
PhaseCount(r, n) == IF r.gaf = "empty" THEN 0 ELSE n.all
RealignReqs == [gaf : {"records", "empty"}, cores : {"omitted", "1", "2"}, out : BOOLEAN, fasta : {"present", "missing"}]
RealignOutcome(r) == IF r.fasta = "missing" THEN "exception" ELSE "ok"   \* E6
RealignCount(r, n) == IF r.gaf = "empty" THEN 0 ELSE n.all

Reqs == {[cmd |-> "stat", r |-> x] : x \in StatReqs} \cup {[cmd |-> "phase", r |-> x] : x \in PhaseReqs} \cup {[cmd |-> "realign", r |-> x] : x \in RealignReqs} \cup
        {[cmd |-> "view", r |-> x] : x \in ViewReqs} \cup {[cmd |-> "sort", r |-> x] : x \in SortReqs}
        \cup {[cmd |-> "order_gfa", r |-> x] : x \in OrderReqs} \cup {[cmd |-> "index", r |-> x] : x \in IndexReqs}
        \cup {[cmd |-> "find_path", r |-> x] : x \in PathReqs}
Outcome(q) == CASE q.cmd = "view" -> ViewOutcome(q.r) [] q.cmd = "sort" -> SortOutcome(q.r) [] q.cmd = "order_gfa" -> OrderOutcome(q.r)
                [] q.cmd = "index" -> IndexOutcome(q.r) [] q.cmd = "find_path" -> PathOutcome(q.r)
                [] q.cmd = "stat" -> StatOutcome(q.r) [] q.cmd = "phase" -> PhaseOutcome(q.r) [] q.cmd = "realign" -> RealignOutcome(q.r)

VARIABLE req
TInit == req \in Reqs
TNext == UNCHANGED req
TSpec == TInit /\ [][TNext]_req
(* design sanity: a usage error never depends on the input files, and every command has requests of every class it names *)
UsageIsInputIndependent ==
  /\ (req.cmd = "view" => (ViewOutcome(req.r) = "usage" <=> ViewOutcome([req.r EXCEPT !.infmt = "u", !.index = "default"]) = "usage"))
  /\ (req.cmd = "sort" => (SortOutcome(req.r) = "usage" <=> SortOutcome([req.r EXCEPT !.infmt = "u"]) = "usage"))
(* the deviations: without them no well-formed request ends in an exception *)
NoExceptionOutcome == Outcome(req) # "exception"
=============================================================================
