SPECIFICATION CSpec
CONSTANTS MaxRef = 0  MaxHap = 0  Lens = {}  Gaps = {}  MaxWalk = 0  HapBase = 1  Extras = {}  MaxAvoid = 0  WalkLen = 0
POSTCONDITION AllConsumed
CHECK_DEADLOCK FALSE
