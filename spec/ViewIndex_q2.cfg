SPECIFICATION VSpec
CONSTANTS MaxRef = 2  MaxHap = 2  Lens = {1}  Gaps = {0, 2}  MaxWalk = 0  HapBase = 1
          Extras = {"none", "inv"}  MaxAvoid = 1  WalkLen = 3
INVARIANT SessionOK
CHECK_DEADLOCK FALSE
