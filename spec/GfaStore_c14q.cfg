SPECIFICATION Spec
CONSTANTS Ids = {1, 2}  Ovs = {0, 3}  TagVals <- NoTags  Signs <- Both  Simple = FALSE  MaxLinks = 2  MaxDels = 0
INVARIANT Symmetric
INVARIANT NoDangling
INVARIANT WalkLaw3
CHECK_DEADLOCK FALSE
