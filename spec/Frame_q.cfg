SPECIFICATION FSpec
CONSTANTS Paths = {"a", "b", "c"}
PROPERTY StepsKeepFrame
PROPERTY Idempotent
CHECK_DEADLOCK FALSE
