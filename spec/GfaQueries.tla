----------------------------- MODULE GfaQueries -----------------------------
(* Growth of the specification beyond the listed properties (DESIGN section 8, item 1):       *)
(* the remaining public operations of gaftools.gfa.GFA and the protocol of the per-node       *)
(* `visited` flag that several of them share.                                                  *)
(*                                                                                             *)
(* GfaStore models the object as (nodes, links, link-tag table).  This module adds             *)
(*   vis  - the set of nodes whose `visited` flag is set (Node.visited),                       *)
(* the editing operations remove_edge and remove_lonely_nodes, and the flag-using queries      *)
(*   set_visited(b), find_component(n), all_components(), bfs(start, size, reset_visited)      *)
(* as operations that change vis and return a value, plus the pure queries                     *)
(*   dfs(start) (exact visiting order), biccs() on the whole graph, list_is_path(list),        *)
(*   return_gfa_path(list), path_exists(steps).                                                *)
(* One operation is one public call of the sequential library (its linearization point is the  *)
(* return).  QApply(S, V, o) is the single source of truth: TLC explores it as a state machine *)
(* (QSpec) and Check_Queries folds recorded call histories of the real object through it.      *)
(*                                                                                             *)
(* The module states what the code DOES; behaviour a reader of the docstrings would not expect *)
(* is named:                                                                                   *)
(*   Dev_BfsResetMarksAll   bfs(..., reset_visited=True) calls set_visited(True): every node   *)
(*                          is marked, so the default call returns {start} only.               *)
(*   Dev_BfsSizePlusOne     bfs(size=k) returns up to k+1 nodes (`len(neighborhood) <= size`). *)
(*   Dev_FindLeavesFlags    find_component leaves its flags set; all_components clears them at *)
(*                          the end but does not clear them first, so it reports the           *)
(*                          components of the graph induced on the UNFLAGGED nodes.            *)
(*   Dev_BiccsLastRoot      biccs() on a graph with several components returns the result of   *)
(*                          the last root only (order_gfa calls it per component).             *)
(*   Dev_RemoveEdgeTags     remove_edge drops the tag entry keyed without the overlap, i.e.    *)
(*                          also that of a parallel link with another overlap.                 *)
(* The theorems at the end (checked by TLC as invariants / action properties) are the protocol *)
(* a caller can rely on.                                                                       *)
EXTENDS GfaStore, SequencesExt

CONSTANTS MaxQ,      \* bound on flag-changing queries per behaviour
          Sizes      \* size arguments of bfs
VARIABLES vis, nq
qvars == <<nodes, links, etags, ndel, vis, nq>>

Sorted(S) == SetToSortSeq(S, <)                 \* Node.neighbors() is sorted (ids n1..n9: string order = numeric order)
Nbrs(S, n) == {m \in S.nodes : {n, m} \in Edges(S.links)}     \* contains n itself for a self-link
H2(S) == HalfEdges(S.links)
InDir(S, n, other, d) == \E h \in H2(S) : h[1] = n /\ h[2] = d /\ h[3] = other   \* Node.in_direction

-----------------------------------------------------------------------------
(* find_component: start is always expanded; a neighbour is followed only if it is unflagged *)
RECURSIVE Grow(_, _, _, _)
Grow(S, V, front, seen) ==
  LET nxt == {m \in S.nodes \ (seen \cup V) : \E x \in front : m \in Nbrs(S, x)}
  IN IF nxt = {} THEN seen ELSE Grow(S, V, nxt, seen \cup nxt)
FindComp(S, V, n) == Grow(S, V, {n}, {n})
AllComps(S, V) == CompsOf(S.nodes \ V, Edges(S.links))

(* bfs: FIFO queue, neighbours in sorted order, flags set when queued *)
RECURSIVE BfsLoop(_, _, _, _, _)
BfsLoop(S, queue, nbh, V, size) ==
  IF ~(Cardinality(nbh) <= size /\ queue # <<>>) THEN [ret |-> nbh, vis |-> V]
  ELSE LET s == Head(queue)
           new == Sorted({m \in Nbrs(S, s) : m \notin V})
       IN BfsLoop(S, Tail(queue) \o new, nbh \cup {s}, V \cup ToSet(new) \cup {s}, size)
Bfs(S, V, start, size, reset) ==
  LET V1 == IF reset THEN S.nodes ELSE V                     \* Dev_BfsResetMarksAll
  IN IF Nbrs(S, start) = {} THEN [ret |-> {start}, vis |-> V1]
     ELSE BfsLoop(S, <<start>>, {}, V1 \cup {start}, IF size = 0 THEN Cardinality(S.nodes) + 1 ELSE size)

(* dfs: explicit stack, all neighbours pushed in sorted order, so the largest is visited first *)
RECURSIVE DfsLoop(_, _, _)
DfsLoop(S, stack, out) ==
  IF stack = <<>> THEN out
  ELSE LET s == stack[Len(stack)]
           rest == SubSeq(stack, 1, Len(stack) - 1)
       IN IF s \in ToSet(out) THEN DfsLoop(S, rest, out)
          ELSE DfsLoop(S, rest \o Sorted(Nbrs(S, s)), Append(out, s))
Dfs(S, start) ==
  IF start \notin S.nodes THEN <<>>
  ELSE IF Cardinality(S.nodes) = 1 THEN <<start>>
  ELSE IF Nbrs(S, start) = {} THEN <<start>>
  ELSE DfsLoop(S, <<start>>, <<>>)

(* biccs() on the whole graph: the decomposition of ONE component (Dev_BiccsLastRoot) *)
BiccsAnswers(S) == {[blocks |-> Decomp(C, Edges(S.links)).blocks, artic |-> Decomp(C, Edges(S.links)).artic]
                      : C \in CompsOf(S.nodes, Edges(S.links))}

ListIsPath(S, p) == \A k \in 2..Len(p) : p[k] \in Nbrs(S, p[k - 1])
(* return_gfa_path: "error" stands for the ValueError the code raises *)
GfaPathSign(S, p, k) ==
  IF k < Len(p) THEN (IF InDir(S, p[k], p[k + 1], 1) THEN "+" ELSE IF InDir(S, p[k], p[k + 1], 0) THEN "-" ELSE "error")
  ELSE (IF InDir(S, p[k], p[k - 1], 0) THEN "+" ELSE IF InDir(S, p[k], p[k - 1], 1) THEN "-" ELSE "error")
ReturnGfaPath(S, p) ==
  LET signs == [k \in 1..Len(p) |-> GfaPathSign(S, p, k)]
  IN IF \E k \in 1..Len(p) : signs[k] = "error" THEN [err |-> TRUE, steps |-> <<>>]
     ELSE [err |-> FALSE, steps |-> [k \in 1..Len(p) |-> <<p[k], signs[k]>>]]
PathExists(S, p) == \A k \in 1..(Len(p) - 1) : Joins(S.links, p[k], p[k + 1])

-----------------------------------------------------------------------------
(* editing operations beyond GfaStore *)
LinkOfHalf(S, h) == {l \in S.links : l.ends = {<<h[1], h[2]>>, <<h[3], h[4]>>} /\ l.ov = h[5]}
ApplyRemoveEdge(S, h) ==
  [nodes |-> S.nodes,
   links |-> S.links \ LinkOfHalf(S, h),
   etags |-> [k \in DOMAIN S.etags \ {<<h[1], h[2], h[3], h[4]>>, <<h[3], h[4], h[1], h[2]>>} |-> S.etags[k]]]   \* Dev_RemoveEdgeTags
Lonely(S) == {n \in S.nodes : Nbrs(S, n) = {}}
ApplyRemoveLonely(S) == [S EXCEPT !.nodes = @ \ Lonely(S)]

QEnabled(S, V, o) ==
  CASE o.op \in {"AddNode", "AddLink", "DelNode"} -> OpEnabled(S, o)
    [] o.op = "RemoveEdge" -> <<o.a, o.sa, o.b, o.sb, o.ov>> \in H2(S)
    [] o.op = "RemoveLonely" -> TRUE
    [] o.op = "SetVisited" -> TRUE
    [] o.op \in {"FindComponent", "Bfs"} -> o.n \in S.nodes
    [] o.op = "AllComponents" -> TRUE
(* -> [S, vis, ret]; ret = <<>> for operations that return nothing *)
QApply(S, V, o) ==
  CASE o.op \in {"AddNode", "AddLink"} -> [S |-> Apply(S, o), vis |-> V, ret |-> <<>>]       \* a new node is unflagged
    [] o.op = "DelNode" -> [S |-> Apply(S, o), vis |-> V \ {o.n}, ret |-> <<>>]
    [] o.op = "RemoveEdge" -> [S |-> ApplyRemoveEdge(S, <<o.a, o.sa, o.b, o.sb, o.ov>>), vis |-> V, ret |-> <<>>]
    [] o.op = "RemoveLonely" -> [S |-> ApplyRemoveLonely(S), vis |-> V \ Lonely(S), ret |-> <<>>]
    [] o.op = "SetVisited" -> [S |-> S, vis |-> IF o.b THEN S.nodes ELSE {}, ret |-> <<>>]
    [] o.op = "FindComponent" -> [S |-> S, vis |-> V \cup FindComp(S, V, o.n), ret |-> FindComp(S, V, o.n)]
    [] o.op = "AllComponents" -> [S |-> S, vis |-> {}, ret |-> AllComps(S, V)]
    [] o.op = "Bfs" -> [S |-> S, vis |-> Bfs(S, V, o.n, o.size, o.reset).vis, ret |-> Bfs(S, V, o.n, o.size, o.reset).ret]

(* the pure queries, bundled: evaluated by the harness at every point of a history *)
NodeLists(S, K) == UNION {[1..k -> S.nodes] : k \in 2..K}
PureAnswers(S) ==
  [dfs |-> [n \in S.nodes |-> Dfs(S, n)],
   lists |-> [p \in NodeLists(S, 3) |-> [is_path |-> ListIsPath(S, p), gfa_path |-> ReturnGfaPath(S, p)]],
   walks |-> [w \in [1..2 -> ({">", "<"} \X S.nodes)] |-> PathExists(S, w)]]

-----------------------------------------------------------------------------
(* the machine *)
QOps ==
  [op : {"AddNode", "DelNode"}, n : Ids]
  \cup [op : {"AddLink"}, a : Ids, ao : Signs, b : Ids, bo : Signs, ov : Ovs, tg : TagVals]
  \cup [op : {"RemoveEdge"}, a : Ids, sa : {0, 1}, b : Ids, sb : {0, 1}, ov : Ovs]
  \cup [op : {"RemoveLonely", "AllComponents"}]
  \cup [op : {"SetVisited"}, b : BOOLEAN]
  \cup [op : {"FindComponent"}, n : Ids]
  \cup [op : {"Bfs"}, n : Ids, size : Sizes, reset : BOOLEAN]
IsQuery(o) == o.op \in {"SetVisited", "FindComponent", "AllComponents", "Bfs"}

QInit == Init /\ vis = {} /\ nq = 0
Do(o) ==
  /\ QEnabled(St, vis, o)
  /\ o.op = "AddLink" => Cardinality(links \cup {MkLink(o.a, o.ao, o.b, o.bo, o.ov)}) <= MaxLinks
  /\ o.op \in {"DelNode", "RemoveEdge", "RemoveLonely"} => ndel < MaxDels
  /\ IsQuery(o) => nq < MaxQ
  /\ LET R == QApply(St, vis, o) IN
       /\ Set(R.S) /\ vis' = R.vis
       /\ ndel' = IF o.op \in {"DelNode", "RemoveEdge", "RemoveLonely"} THEN ndel + 1 ELSE ndel
       /\ nq' = IF IsQuery(o) THEN nq + 1 ELSE nq
QNext == \E o \in QOps : Do(o)
QSpec == QInit /\ [][QNext]_qvars

-----------------------------------------------------------------------------
(* The protocol, as theorems of the design (TLC checks them on every reachable state) *)
VisInNodes == vis \subseteq nodes
(* with no flag set, all_components is the true partition and find_component the true component *)
CleanIsExact ==
  vis = {} => /\ AllComps(St, vis) = CompsOf(nodes, Edges(links))
              /\ \A n \in nodes : FindComp(St, vis, n) = Reach(n, nodes, Edges(links))
(* with flags set the answers are those of the graph induced on the unflagged nodes: never a node twice, never a flagged one *)
DirtyIsInduced ==
  LET A == AllComps(St, vis) IN
    /\ UNION A = nodes \ vis
    /\ \A X \in A, Y \in A : X # Y => X \cap Y = {}
(* all_components always leaves the object clean; find_component and bfs never clear a flag *)
AllComponentsCleans == [][\A o \in QOps : (o.op = "AllComponents" /\ Do(o)) => vis' = {}]_qvars
FlagsOnlyGrow == [][\A o \in QOps : (o.op \in {"FindComponent", "Bfs"} /\ ~(o.op = "Bfs" /\ o.reset) /\ Do(o)) => vis \subseteq vis']_qvars
(* Dev_BfsResetMarksAll, stated: the default bfs call returns the start node alone *)
BfsDefaultIsStartOnly == \A n \in nodes : Bfs(St, vis, n, 0, TRUE).ret = {n}
(* without reset and from a clean object, bfs with size 0 is the component of start *)
BfsCleanIsComponent == vis = {} => \A n \in nodes : Bfs(St, {}, n, 0, FALSE).ret = Reach(n, nodes, Edges(links))
(* dfs visits exactly the component of start, each node once (the C15 clause, here on the operational model) *)
DfsIsComponent == \A n \in nodes : LET d == Dfs(St, n) IN
                    /\ ToSet(d) = Reach(n, nodes, Edges(links)) /\ Len(d) = Cardinality(ToSet(d)) /\ d[1] = n
(* remove_lonely_nodes leaves no isolated node and removes nothing else *)
LonelyLaw == LET T == ApplyRemoveLonely(St) IN
               /\ Lonely(T) = {} /\ T.links = links /\ \A n \in nodes \ T.nodes : Nbrs(St, n) = {}
(* a list accepted by list_is_path gets a sign for every node *)
GfaPathDefined == \A p \in NodeLists(St, 3) : ListIsPath(St, p) => ~ReturnGfaPath(St, p).err
=============================================================================
