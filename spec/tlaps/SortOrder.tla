------------------------------ MODULE SortOrder ------------------------------
(* The order gaftools sort must realise, on abstract keys <<u, bo, no, st, pos>> (u = 1 for an   *)
(* untagged anchor, else 0; bo, no, st integers; pos the input position, unique per record):     *)
(* lexicographic comparison.  Proved with TLAPS: it is a strict total order on records with      *)
(* distinct positions - hence the sorted output is unique, which is what makes "the same for     *)
(* every permutation of the input up to exact ties" (C08) a consequence of being sorted.         *)
(* SortGaf.Less is this order with u = [KeyBO = -1] and, among untagged anchors, only pos.       *)
EXTENDS Integers, TLAPS

Key == Int \X Int \X Int \X Int \X Int
Lt(a, b) == \/ a[1] < b[1]
            \/ a[1] = b[1] /\ a[2] < b[2]
            \/ a[1] = b[1] /\ a[2] = b[2] /\ a[3] < b[3]
            \/ a[1] = b[1] /\ a[2] = b[2] /\ a[3] = b[3] /\ a[4] < b[4]
            \/ a[1] = b[1] /\ a[2] = b[2] /\ a[3] = b[3] /\ a[4] = b[4] /\ a[5] < b[5]

THEOREM Irreflexive == \A a \in Key : ~Lt(a, a)
  BY DEF Lt, Key

THEOREM Transitive == \A a, b, c \in Key : Lt(a, b) /\ Lt(b, c) => Lt(a, c)
  BY DEF Lt, Key

THEOREM Asymmetric == \A a, b \in Key : Lt(a, b) => ~Lt(b, a)
  BY DEF Lt, Key

THEOREM TotalOnDistinctPositions == \A a, b \in Key : a[5] # b[5] => Lt(a, b) \/ Lt(b, a)
  BY DEF Lt, Key
=============================================================================
