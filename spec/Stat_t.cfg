SPECIFICATION TSpec
CONSTANT MaxLen = 4
INVARIANT ConsumeMatchesReport
INVARIANT PermutationInvariant
CHECK_DEADLOCK FALSE
