------------------------------- MODULE Biccs -------------------------------
(* gaftools.gfa.GFA.biccs - the hand-rolled iterative Hopcroft-Tarjan with an explicit DFS stack, *)
(* an edge stack and the `edge_stack_loc` table of cut positions - transcribed statement by        *)
(* statement (DESIGN section 8, item 2).  One action = one iteration of `while stack:` for one     *)
(* root.  The machine is a refinement of the declarative RGFA!Decomp: TLC runs it on EVERY          *)
(* multigraph with node sides within the bound, from every root, and checks at termination that    *)
(* the reported components and articulation points are the true ones of the root's component       *)
(* (`Correct`), plus the loop invariants the algorithm relies on.  The same Iter operator          *)
(* validates line-level traces recorded from the unmodified implementation (Check_Biccs).          *)
(*                                                                                                 *)
(* State (the local variables of the code):                                                        *)
(*   stack  : sequence of [p, c, i]  - stack item [parent, child, pointer, neighbors(child)]       *)
(*   es     : edge_stack, sequence of <<from, to>>                                                 *)
(*   loc    : edge_stack_loc, partial function edge -> index into es (0-based, never cleaned up)   *)
(*   disc, low : partial functions node -> number;  vis : visited;  rc : root_children             *)
(*   comps  : components (sequence of node sets);  art : artic_points                               *)
EXTENDS RGFA, TLC, SequencesExt

Min2(a, b) == IF a < b THEN a ELSE b
(* Node.neighbors(): ids of both adjacency sets, sorted, one entry per (side, neighbour, neighbour side, overlap) *)
RECURSIVE Rep(_, _)
Rep(x, n) == IF n = 0 THEN <<>> ELSE <<x>> \o Rep(x, n - 1)
RECURSIVE Cat(_)
Cat(ss) == IF ss = <<>> THEN <<>> ELSE Head(ss) \o Cat(Tail(ss))
NbrSeq(N, L, n) ==
  LET H == {h \in HalfEdges(L) : h[1] = n}
      ms == SetToSortSeq({h[3] : h \in H}, <)
  IN Cat([k \in 1..Len(ms) |-> Rep(ms[k], Cardinality({h \in H : h[3] = ms[k]}))])

NodesOf(edges) == UNION {{e[1], e[2]} : e \in edges}
(* `visited` is the one local that survives from one root to the next (everything else is re-initialised per root) *)
StartFrom(root, V) ==
  [root |-> root, stack |-> <<[p |-> root, c |-> root, i |-> 0]>>, es |-> <<>>, loc |-> <<>>,
   disc |-> (root :> 0), low |-> (root :> 0), vis |-> V \cup {root}, rc |-> 0, comps |-> <<>>, art |-> {}, done |-> FALSE]
Start(N, L, root) == StartFrom(root, {})

Put(f, k, v) == (k :> v) @@ f        \* dict assignment
Cut(S, p, c) ==                      \* comp = edge_stack_to_set(edge_stack[cut_point:]); del edge_stack[cut_point:]
  LET cp == S.loc[<<p, c>>]          \* 0-based
  IN [comp |-> NodesOf({S.es[k] : k \in (cp + 1)..Len(S.es)}), es |-> SubSeq(S.es, 1, cp)]

Iter(N, L, S) ==
  LET top == S.stack[Len(S.stack)]
      parent == top.p
      child == top.c
      nb == NbrSeq(N, L, child)
  IN IF top.i < Len(nb)
     THEN LET nn == nb[top.i + 1]
              st1 == [S.stack EXCEPT ![Len(S.stack)].i = top.i + 1]        \* next_child advances the pointer
          IN IF nn = parent THEN [S EXCEPT !.stack = st1]                   \* `continue`
             ELSE IF nn \in S.vis
             THEN IF S.disc[nn] <= S.disc[child]
                  THEN [S EXCEPT !.stack = st1, !.es = Append(S.es, <<child, nn>>),
                                 !.loc = Put(S.loc, <<child, nn>>, Len(S.es)),
                                 !.low = Put(S.low, child, Min2(S.low[child], S.disc[nn]))]
                  ELSE [S EXCEPT !.stack = st1]
             ELSE LET d == Cardinality(DOMAIN S.disc) IN
                  [S EXCEPT !.stack = Append(st1, [p |-> child, c |-> nn, i |-> 0]),
                            !.disc = Put(S.disc, nn, d), !.low = Put(S.low, nn, d), !.vis = S.vis \cup {nn},
                            !.es = Append(S.es, <<child, nn>>), !.loc = Put(S.loc, <<child, nn>>, Len(S.es))]
     ELSE LET st1 == SubSeq(S.stack, 1, Len(S.stack) - 1)                  \* stack.pop()
          IN IF Len(st1) > 1
             THEN LET S1 == IF S.low[child] >= S.disc[parent]
                            THEN LET x == Cut(S, parent, child) IN
                                 [S EXCEPT !.art = S.art \cup {parent}, !.comps = Append(S.comps, x.comp), !.es = x.es]
                            ELSE S
                  IN [S1 EXCEPT !.stack = st1, !.low = Put(S1.low, parent, Min2(S1.low[parent], S1.low[child]))]
             ELSE IF Len(st1) = 1
             THEN LET x == Cut(S, parent, child) IN
                  [S EXCEPT !.stack = st1, !.rc = S.rc + 1, !.comps = Append(S.comps, x.comp), !.es = x.es]
             ELSE [S EXCEPT !.stack = st1, !.done = TRUE,                    \* the root item itself: the loop ends
                            !.art = IF S.rc > 1 THEN S.art \cup {S.root} ELSE S.art]

-----------------------------------------------------------------------------
(* the machine: a graph (node set + links with sides) and a root are chosen, then the loop runs *)
CONSTANTS Ids, Signs, MaxLinks
VARIABLES N, L, S
bvars == <<N, L, S>>
AllLinks == {MkLink(a, ao, b, bo, 0) : a \in Ids, b \in Ids, ao \in Signs, bo \in Signs}
BInit == /\ N \in (SUBSET Ids) \ {{}}
         /\ L \in {X \in SUBSET {l \in AllLinks : LinkNodes(l) \subseteq N} : Cardinality(X) <= MaxLinks}
         /\ \E r \in N : S = Start(N, L, r)
Step == /\ ~S.done /\ S.stack # <<>>
        /\ S' = Iter(N, L, S) /\ UNCHANGED <<N, L>>
BSpec == BInit /\ [][Step]_bvars /\ WF_bvars(Step)

Ed == Edges(L)
CompOfRoot == Reach(S.root, N, Ed)
(* refinement: at termination the answer is the declarative decomposition of the root's component *)
Correct == S.done => LET d == Decomp(CompOfRoot, Ed) IN
                       /\ {S.comps[k] : k \in 1..Len(S.comps)} = d.blocks
                       /\ Len(S.comps) = Cardinality(d.blocks)             \* no block reported twice
                       /\ S.art = d.artic
(* loop invariants the code relies on *)
StackIsTreePath == \A k \in 2..Len(S.stack) : S.stack[k].p = S.stack[k - 1].c
DiscInjective == \A a, b \in DOMAIN S.disc : S.disc[a] = S.disc[b] => a = b
LowBelowDisc == \A a \in DOMAIN S.low : S.low[a] <= S.disc[a]
(* the cut position looked up in edge_stack_loc is the position of that tree edge in the CURRENT edge stack, *)
(* although the table is never cleaned after a cut (stale entries are only ever overwritten before use)      *)
LocOfTreeEdges == \A k \in 2..Len(S.stack) :
                     LET e == <<S.stack[k].p, S.stack[k].c>> IN
                       e \in DOMAIN S.loc /\ S.loc[e] < Len(S.es) /\ S.es[S.loc[e] + 1] = e
VisitedIsReachable == S.vis \subseteq CompOfRoot
Terminates == <>(S.done)
=============================================================================
