---- MODULE MC_GfaStore ----
EXTENDS GfaStore
WalkLaw3 == WalkReverseLaw(3)
NoTags == {<<>>}
OneTag == {<<>>, <<"xa:i:1">>}
TwoTags == {<<>>, <<"xa:i:1">>, <<"xb:Z:q">>}
Both == {"+", "-"}
Plus == {"+"}
====
