SPECIFICATION PSpec
CONSTANTS MaxDepth = 4  Resort = "append"  MaxLen = 0
INVARIANT RecordsAreASelection
INVARIANT SortIdempotentOnOrder
INVARIANT SortCommutesWithSelection
INVARIANT SelectionsCommute
INVARIANT SortCommutesWithPhase
INVARIANT PhaseCommutesWithSelection
INVARIANT NeverEmpty
PROPERTY OnlySelectionsShrink
CHECK_DEADLOCK FALSE
