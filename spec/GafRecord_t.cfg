SPECIFICATION RSpec
CONSTANTS MaxFields = 2  ZLen = 3  SecondRich = FALSE
INVARIANT IdentityAccepted
INVARIANT DropRejected
INVARIANT DsDropAccepted
CHECK_DEADLOCK FALSE
