---- MODULE Check_Chain ----
(* Code -> spec for C06 / C07 / C18: one case = one generated multi-chromosome rGFA with the      *)
(* results of several `gaftools order_gfa` runs (line permutations, stale tags, hash seeds,        *)
(* chromosome orders).  c.chroms is the generator's chain structure (validated against the         *)
(* declarative decomposition by invariant ConstructionOK), c.runs[k] the projection of run k.      *)
EXTENDS BubbleChain, Json, IOUtils
Cases == ndJsonDeserialize(IOEnv.CASES)
VARIABLE i
ToSet(s) == {s[k] : k \in DOMAIN s}
ChromByName(c, nm) == c.chroms[CHOOSE k \in 1..Len(c.chroms) : c.chroms[k].name = nm]
Good(c, order) == SelectSeq(order, LAMBDA nm : ~ChromByName(c, nm).bad)
NodeSet(ch) == UNION {ToSet(ch.elems[k].ns) : k \in 1..Len(ch.elems)}
AsSets(ch) == [name |-> ch.name, bad |-> ch.bad, elems |-> [k \in 1..Len(ch.elems) |-> [k |-> ch.elems[k].k, ns |-> ToSet(ch.elems[k].ns)]]]
MaxBo(ch, tag) == CHOOSE m \in {tag[n][1] : n \in NodeSet(ch)} : \A n \in NodeSet(ch) : tag[n][1] <= m
MinBo(ch, tag) == CHOOSE m \in {tag[n][1] : n \in NodeSet(ch)} : \A n \in NodeSet(ch) : tag[n][1] >= m

(* one run: r.order (requested), r.status, r.tags : node |-> <<BO, NO>> for every node of the output *)
Dom(r) == DOMAIN r.tags \ {"_none_"}      \* "_none_" is the harness's placeholder for an empty tag map
RunTags(c, r) ==
  LET good == Good(c, r.order)
      expected == UNION {NodeSet(ChromByName(c, good[k])) : k \in 1..Len(good)}
  IN IF r.status # "ok" THEN "order_gfa_failed_" \o r.status
     ELSE IF Dom(r) # expected THEN
          (IF \E nm \in ToSet(r.order) : ChromByName(c, nm).bad /\ NodeSet(ChromByName(c, nm)) \cap Dom(r) # {} THEN "skipped_component_was_tagged_or_written"
           ELSE IF \E n \in expected : n \notin Dom(r) THEN "orderable_component_missing_from_output" ELSE "foreign_nodes_in_output")
     ELSE LET bad == {k \in 1..Len(good) : ChainTagsClause(AsSets(ChromByName(c, good[k])), r.tags) # "ok"} IN
          IF bad # {} THEN ChainTagsClause(AsSets(ChromByName(c, good[CHOOSE k \in bad : TRUE])), r.tags)
          ELSE IF \E k \in 1..(Len(good) - 1) : MaxBo(ChromByName(c, good[k]), r.tags) >= MinBo(ChromByName(c, good[k + 1]), r.tags)
               THEN "chromosome_bo_ranges_not_disjoint_in_requested_order"
          ELSE "ok"

V06(c) ==
  LET R == c.runs
      bad == {k \in 1..Len(R) : RunTags(c, R[k]) # "ok"}
  IN IF bad # {} THEN RunTags(c, R[CHOOSE k \in bad : \A j \in bad : k <= j])
     ELSE IF \E k \in 2..Len(R) : R[k].order = R[1].order /\ R[k].tags # R[1].tags THEN
          (IF \E k \in 2..Len(R) : R[k].order = R[1].order /\ R[k].tags # R[1].tags /\ R[k].variant = "hashseed" THEN "depends_on_hash_seed"
           ELSE IF \E k \in 2..Len(R) : R[k].order = R[1].order /\ R[k].tags # R[1].tags /\ R[k].variant = "stale" THEN "depends_on_stale_tags"
           ELSE "depends_on_line_order")
     ELSE "ok"

(* C18: runs come in pairs: with the bad chromosomes in the request (r) and without them (q) *)
V18(c) ==
  LET R == c.runs
      bad == {k \in 1..Len(R) : RunTags(c, R[k]) # "ok"}
  IN IF bad # {} THEN RunTags(c, R[CHOOSE k \in bad : \A j \in bad : k <= j])
     ELSE IF \E k \in 1..Len(R) : R[k].pair > 0 /\ (R[k].tags # R[R[k].pair].tags \/ R[k].files # R[R[k].pair].files) THEN "differs_from_run_without_the_skipped_component"
     ELSE IF \E k \in 1..Len(R) : \E nm \in ToSet(R[k].order) : ChromByName(c, nm).bad /\ nm \in ToSet(R[k].written) THEN "output_file_for_skipped_component"
     ELSE "ok"

(* C07: r.segs : node |-> [seq, tags (set of <<tag,type,value>> as sequence)], r.links: seq of [a,ao,b,bo,ov,tags], r.layout_ok pieces *)
LinkKey(l) == <<MkLink(l.a, l.ao, l.b, l.bo, 0).ends, l.ov, ToSet(l.tags)>>
V07run(c, r) ==
  LET good == Good(c, r.order)
      expected == UNION {NodeSet(ChromByName(c, good[k])) : k \in 1..Len(good)}
      inl == {LinkKey(c.in_links[k]) : k \in {j \in 1..Len(c.in_links) : c.in_links[j].a \in expected /\ c.in_links[j].b \in expected}}
      outl == {LinkKey(r.links[k]) : k \in 1..Len(r.links)}
      NoBoNo(t) == {x \in ToSet(t) : x[1] \notin {"BO", "NO"}}
  IN IF r.status # "ok" THEN "order_gfa_failed_" \o r.status
     ELSE IF DOMAIN r.segs # expected \/ Len(r.seg_order) # Cardinality(expected) THEN "segments_lost_duplicated_or_invented"
     ELSE IF \E n \in expected : r.segs[n].seq # (IF r.withseq THEN c.in_segs[n].seq ELSE "*") THEN "sequence_altered"
     ELSE IF \E n \in expected : NoBoNo(r.segs[n].tags) # NoBoNo(c.in_segs[n].tags) THEN "segment_tags_altered"
     ELSE IF \E n \in expected : Cardinality({x \in ToSet(r.segs[n].tags) : x[1] = "BO"}) # 1 \/ Cardinality({x \in ToSet(r.segs[n].tags) : x[1] = "NO"}) # 1 THEN "bo_no_not_added_exactly_once"
     ELSE IF outl # inl THEN (IF \E x \in inl : x \notin outl THEN "link_lost_or_altered" ELSE "link_invented")
     ELSE IF Len(r.links) > Cardinality(outl) THEN "link_duplicated"
     ELSE IF ~r.s_before_l THEN "s_lines_after_l_lines"
     ELSE IF \E k \in 1..(Len(r.seg_order) - 1) :
               LET a == r.tags[r.seg_order[k]] b == r.tags[r.seg_order[k + 1]] IN a[1] > b[1] \/ (a[1] = b[1] /\ a[2] > b[2])
          THEN "s_lines_not_in_bo_no_order"
     ELSE IF {r.csv[k][1] : k \in 1..Len(r.csv)} # expected \/ Len(r.csv) # Cardinality(expected) THEN "csv_nodes_wrong"
     ELSE IF \E k \in 1..Len(r.csv) : <<r.csv[k][2], r.csv[k][3]>> # r.tags[r.csv[k][1]] THEN "csv_bo_no_differs"
     ELSE IF \E k \in 1..Len(r.csv) : r.csv[k][4] # (IF r.tags[r.csv[k][1]][2] = 0 THEN "orange" ELSE "blue") THEN "csv_role_wrong"
     ELSE "ok"
V07(c) ==
  LET bad == {k \in 1..Len(c.runs) : V07run(c, c.runs[k]) # "ok"} IN
  IF bad # {} THEN V07run(c, c.runs[CHOOSE k \in bad : \A j \in bad : k <= j])
  ELSE LET rt == c.rt
           K(ll) == {LinkKey(ll[k]) : k \in 1..Len(ll)}
       IN IF rt.status # "ok" THEN "load_write_failed_" \o rt.status
          ELSE IF DOMAIN rt.segs # DOMAIN c.in_segs THEN "load_write_segments_differ"
          ELSE IF \E n \in DOMAIN rt.segs : rt.segs[n].seq # c.in_segs[n].seq \/ ToSet(rt.segs[n].tags) # ToSet(c.in_segs[n].tags) THEN "load_write_segment_content_differs"
          ELSE IF K(rt.links) # K(c.in_links) THEN "load_write_links_differ"
          ELSE IF K(rt.links2) # K(c.in_links) THEN "load_write_load_write_links_differ"
          ELSE "ok"

Verdict(c) == CASE c.mode = "C06" -> V06(c) [] c.mode = "C07" -> V07(c) [] c.mode = "C18" -> V18(c)
CInit == i = 1 /\ BInit
CNext == /\ i <= Len(Cases)
         /\ PrintT(<<"VERDICT", Cases[i].id, Verdict(Cases[i])>>)
         /\ i' = i + 1 /\ UNCHANGED bvars
CSpec == CInit /\ [][CNext]_<<i, bvars>>
AllConsumed == TLCGet("stats").diameter - 1 = Len(Cases)
====
