----------------------------- MODULE CoordsModel -----------------------------
(* A model of gaftools' two conversions (conversion.py: to_stable with merge_nodes, to_unstable  *)
(* with the interval search and the 3-case overlap filter), written against the vocabulary of     *)
(* Coords, and the theorems that tie the *design* of the conversion to the properties:            *)
(*   C01  Denote(ToStable(r)) = Denote(r), CIGAR orientation, path length  - for every walk       *)
(*        Denote(ToUnstable(ToStable(r))) = Denote(r)                                              *)
(*   C02  ToUnstable(ToStable(r)) = r  for canonical r, and ToStable of that is ToStable(r)        *)
(* TLC checks them on every state of the Coords generator for ALL offset pairs.                    *)
(* (The conformance checks do not compare the implementation with this model - a correct          *)
(* refactoring may differ from it - they use the relational oracle Denote.)                        *)
EXTENDS Coords

RefContigs(segs) == {"chr1"}                         \* rank-0 contigs of the generator's graphs
Iv(segs, n) == [ctg |-> segs[n].sn, a |-> segs[n].so, b |-> segs[n].so + segs[n].ln]
Mergeable(x, ox, y, oy) == /\ x.ctg = y.ctg /\ ox = oy
                           /\ (ox = ">" => x.b = y.a) /\ (ox = "<" => x.a = y.b)
Merged(x, ox, y) == IF ox = "<" THEN [ctg |-> x.ctg, a |-> y.a, b |-> x.b] ELSE [ctg |-> x.ctg, a |-> x.a, b |-> y.b]
RECURSIVE MergeAll(_, _, _)
MergeAll(segs, out, rest) ==          \* out: merged <<iv, o>> so far (non-empty); rest: remaining node steps
  IF rest = <<>> THEN out
  ELSE LET last == out[Len(out)]
           y == Iv(segs, rest[1].id)
       IN IF Mergeable(last[1], last[2], y, rest[1].o)
          THEN MergeAll(segs, [out EXCEPT ![Len(out)] = <<Merged(last[1], last[2], y), last[2]>>], Tail(rest))
          ELSE MergeAll(segs, Append(out, <<y, rest[1].o>>), Tail(rest))

ToStable(segs, r) ==
  LET m == MergeAll(segs, <<<<Iv(segs, r.path[1].id), r.path[1].o>>>>, Tail(r.path)) IN
  IF Len(m) = 1 /\ m[1][1].ctg \in RefContigs(segs)
  THEN LET rev == m[1][2] = "<"
           st == IF rev THEN m[1][1].a + r.plen - r.pe ELSE m[1][1].a + r.ps
       IN [strand |-> IF rev THEN "-" ELSE "+", path |-> <<[k |-> "ctg", ctg |-> m[1][1].ctg]>>,
           plen |-> ContigLen(segs, m[1][1].ctg), ps |-> st, pe |-> st + r.pe - r.ps,
           cigar |-> IF rev THEN Rev(r.cigar) ELSE r.cigar]
  ELSE [strand |-> "+", path |-> [k \in 1..Len(m) |-> [k |-> "iv", o |-> m[k][2], ctg |-> m[k][1].ctg, a |-> m[k][1].a, b |-> m[k][1].b]],
        plen |-> r.plen, ps |-> r.ps, pe |-> r.pe, cigar |-> r.cigar]

(* nodes of a contig overlapping [a, b), in increasing offset order *)
SortedOn(segs, ctg, a, b) ==
  LET S == {n \in OnContig(segs, ctg) : segs[n].so < b /\ a < segs[n].so + segs[n].ln} IN
  LET RECURSIVE Ord(_) Ord(T) == IF T = {} THEN <<>> ELSE LET m == CHOOSE n \in T : \A x \in T : segs[n].so <= segs[x].so IN <<m>> \o Ord(T \ {m}) IN Ord(S)
NodeSteps(segs, o, ctg, a, b) == LET s == SortedOn(segs, ctg, a, b) IN
  [k \in 1..Len(s) |-> [k |-> "node", o |-> o, id |-> IF o = ">" THEN s[k] ELSE s[Len(s) + 1 - k]]]
RECURSIVE Steps(_, _)
Steps(segs, p) == IF p = <<>> THEN <<>> ELSE NodeSteps(segs, p[1].o, p[1].ctg, p[1].a, p[1].b) \o Steps(segs, Tail(p))
ToUnstable(segs, s) ==
  IF IsBare(s)
  THEN LET ctg == s.path[1].ctg
           o == IF s.strand = "+" THEN ">" ELSE "<"
           p == NodeSteps(segs, o, ctg, s.ps, s.pe)
           tot == SumLen(segs, p)
           first == SortedOn(segs, ctg, s.ps, s.pe)[1]
           fwdstart == s.ps - segs[first].so                  \* offset of the span in the forward node run
       IN [strand |-> "+", path |-> p, plen |-> tot,
           ps |-> IF s.strand = "+" THEN fwdstart ELSE tot - fwdstart - (s.pe - s.ps),
           pe |-> IF s.strand = "+" THEN fwdstart + (s.pe - s.ps) ELSE tot - fwdstart,
           cigar |-> IF s.strand = "+" THEN s.cigar ELSE Rev(s.cigar)]
  ELSE [strand |-> "+", path |-> Steps(segs, s.path), plen |-> s.plen, ps |-> s.ps, pe |-> s.pe, cigar |-> s.cigar]

-----------------------------------------------------------------------------
Rec(ps, pe) == [strand |-> "+", path |-> GenPath, plen |-> SumLen(GenSegs, GenPath), ps |-> ps, pe |-> pe,
                cigar |-> <<<<pe - ps, "=">>, <<1, "X">>>>]
SameRec(x, y) == x.strand = y.strand /\ x.path = y.path /\ x.plen = y.plen /\ x.ps = y.ps /\ x.pe = y.pe /\ x.cigar = y.cigar
ConversionTheorems ==
  phase = "walk" /\ walk # <<>> =>
    LET segs == GenSegs
        L == SumLen(segs, GenPath)
    IN \A ps \in 0..(L - 1) : \A pe \in (ps + 1)..L :
         LET r == Rec(ps, pe)
             s == ToStable(segs, r)
             u == ToUnstable(segs, s)
         IN /\ WellFormed(segs, s) /\ SameLocus(segs, r, s) /\ CigarRO(s) = CigarRO(r) /\ PathLenOK(segs, s)
            /\ WellFormed(segs, u) /\ SameLocus(segs, s, u) /\ CigarRO(u) = CigarRO(s) /\ PathLenOK(segs, u)
            /\ (Canonical(segs, r) => SameRec(u, r) /\ SameRec(ToStable(segs, u), s))
=============================================================================
