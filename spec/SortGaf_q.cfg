SPECIFICATION SSpec
CONSTANT MaxLen = 2
INVARIANT LessIsStrictTotal
INVARIANT SortedIsAccepted
INVARIANT GsiIsExact
CHECK_DEADLOCK FALSE
