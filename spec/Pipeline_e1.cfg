SPECIFICATION PSpec
CONSTANTS MaxDepth = 2  Resort = "append"  MaxLen = 0
INVARIANT TagsUniqueSort
CHECK_DEADLOCK FALSE
