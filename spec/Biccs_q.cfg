SPECIFICATION BSpec
CONSTANTS Ids = {1, 2, 3, 4}  Signs <- Plus  MaxLinks = 4
INVARIANT Correct
INVARIANT StackIsTreePath
INVARIANT DiscInjective
INVARIANT LowBelowDisc
INVARIANT LocOfTreeEdges
INVARIANT VisitedIsReachable
PROPERTY Terminates
CHECK_DEADLOCK FALSE
