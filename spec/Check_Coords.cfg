SPECIFICATION CSpec
CONSTANTS MaxRef = 0  MaxHap = 0  Lens = {}  Gaps = {}  MaxWalk = 0  HapBase = 10
POSTCONDITION AllConsumed
CHECK_DEADLOCK FALSE
