SPECIFICATION BSpec
CONSTANTS MaxChrom = 3  MaxUnits = 1  Kinds = {"snp", "inv"}  EndKinds = {"tip"}  Defects = {}  MaxDefects = 0  MinUnits = 0  Pattern <- NoPattern  Wholes = {}
INVARIANT LexSanity
CHECK_DEADLOCK FALSE
