SPECIFICATION CSpec
CONSTANTS Ids = {}  Ovs = {}  TagVals = {}  Signs = {}  Simple = FALSE  MaxLinks = 0  MaxDels = 0  MaxQ = 0  Sizes = {}
POSTCONDITION AllConsumed
CHECK_DEADLOCK FALSE
