------------------------------- MODULE Coords -------------------------------
(* Coordinate systems of GAF paths over an rGFA and what a path *designates*.                *)
(*                                                                                           *)
(* A graph is  segs : [node |-> [sn, so, ln]]  (stable contig name, offset, length).         *)
(* A path is a sequence of steps                                                              *)
(*     [k |-> "node", o, id]            unstable step  >id / <id                              *)
(*     [k |-> "iv",   o, ctg, a, b]     stable step    >ctg:a-b / <ctg:a-b                    *)
(*     [k |-> "ctg",  ctg]              a bare contig name (then start/end are contig offsets *)
(*                                      and the strand column gives the orientation)          *)
(* Denote(segs, r) is the read-oriented sequence of base positions <<node, offset, strand>>   *)
(* that path[start:end] designates.  Two records designate the same locus iff Denote is equal *)
(* - this is positional, hence independent of the letters in the graph.                      *)
(*                                                                                           *)
(* The module is also a generator: its state machine builds a valid rGFA (rank-0 contig tiled *)
(* from 0 by AddRef, a haplotype contig with touching or separated segments by AddHap) and a  *)
(* walk over its nodes in any orientation mix (Ext).                                          *)
EXTENDS Integers, Sequences, FiniteSets, TLC

Flip(s) == IF s = "+" THEN "-" ELSE "+"
Rev(seq) == [k \in 1..Len(seq) |-> seq[Len(seq) + 1 - k]]
FlipSeq(seq) == [k \in 1..Len(seq) |->
                   <<seq[Len(seq) + 1 - k][1], seq[Len(seq) + 1 - k][2], Flip(seq[Len(seq) + 1 - k][3])>>]

OnContig(segs, ctg) == {n \in DOMAIN segs : segs[n].sn = ctg}
Holds(segs, n, ctg, p) == segs[n].sn = ctg /\ segs[n].so <= p /\ p < segs[n].so + segs[n].ln
NodeAt(segs, ctg, p) == CHOOSE n \in DOMAIN segs : Holds(segs, n, ctg, p)
Covered(segs, ctg, a, b) == \A p \in a..(b - 1) : \E n \in DOMAIN segs : Holds(segs, n, ctg, p)
FwdIv(segs, ctg, a, b) == [k \in 1..(b - a) |->
                             LET p == a + k - 1
                                 n == NodeAt(segs, ctg, p)
                             IN <<n, p - segs[n].so, "+">>]
StepPos(segs, st) ==
  IF st.k = "node"
  THEN LET L == segs[st.id].ln IN
         IF st.o = ">" THEN [k \in 1..L |-> <<st.id, k - 1, "+">>]
                       ELSE [k \in 1..L |-> <<st.id, L - k, "-">>]
  ELSE IF st.o = ">" THEN FwdIv(segs, st.ctg, st.a, st.b)
                     ELSE FlipSeq(FwdIv(segs, st.ctg, st.a, st.b))
StepLen(segs, st) == IF st.k = "node" THEN segs[st.id].ln ELSE st.b - st.a
RECURSIVE Concat(_, _)
Concat(segs, p) == IF p = <<>> THEN <<>> ELSE StepPos(segs, Head(p)) \o Concat(segs, Tail(p))
RECURSIVE SumLen(_, _)
SumLen(segs, p) == IF p = <<>> THEN 0 ELSE StepLen(segs, Head(p)) + SumLen(segs, Tail(p))
Max(S) == CHOOSE m \in S : \A x \in S : x <= m
ContigLen(segs, ctg) == IF OnContig(segs, ctg) = {} THEN 0 - 1
                        ELSE Max({segs[n].so + segs[n].ln : n \in OnContig(segs, ctg)})   \* rank 0: tiled from 0
IsBare(r) == Len(r.path) = 1 /\ r.path[1].k = "ctg"

WellFormed(segs, r) ==
  IF r.path = <<>> THEN FALSE
  ELSE IF IsBare(r)
  THEN /\ r.strand \in {"+", "-"} /\ 0 <= r.ps /\ r.ps <= r.pe
       /\ r.pe <= ContigLen(segs, r.path[1].ctg) /\ Covered(segs, r.path[1].ctg, r.ps, r.pe)
  ELSE /\ r.strand \in {"+", "-"}
       /\ \A k \in 1..Len(r.path) :
             IF r.path[k].k = "node" THEN r.path[k].id \in DOMAIN segs
             ELSE /\ r.path[k].k = "iv" /\ r.path[k].a < r.path[k].b
                  /\ Covered(segs, r.path[k].ctg, r.path[k].a, r.path[k].b)
       /\ 0 <= r.ps /\ r.ps <= r.pe /\ r.pe <= SumLen(segs, r.path)

Denote(segs, r) ==
  LET fwd == IF IsBare(r) THEN FwdIv(segs, r.path[1].ctg, r.ps, r.pe)
             ELSE SubSeq(Concat(segs, r.path), r.ps + 1, r.pe)
  IN IF r.strand = "+" THEN fwd ELSE FlipSeq(fwd)
CigarRO(r) == IF r.strand = "+" THEN r.cigar ELSE Rev(r.cigar)       \* CIGAR in read orientation
PathLenOK(segs, r) == r.plen = (IF IsBare(r) THEN ContigLen(segs, r.path[1].ctg) ELSE SumLen(segs, r.path))

(* same locus, same orientation relative to the read, CIGAR reversed exactly when the strand flips *)
SameLocus(segs, x, y) == Denote(segs, x) = Denote(segs, y)
Canonical(segs, r) ==   \* unstable record whose alignment touches its first and its last node
  /\ r.strand = "+" /\ \A k \in 1..Len(r.path) : r.path[k].k = "node"
  /\ r.ps < segs[r.path[1].id].ln
  /\ r.pe > SumLen(segs, r.path) - segs[r.path[Len(r.path)].id].ln
  /\ r.ps < r.pe

-----------------------------------------------------------------------------
(* Generator *)
CONSTANTS MaxRef, MaxHap, Lens, Gaps, MaxWalk, HapBase
VARIABLES ref, hap, phase, walk
gvars == <<ref, hap, phase, walk>>
NNodes == Len(ref) + Len(hap)
GInit == ref = <<>> /\ hap = <<>> /\ phase = "ref" /\ walk = <<>>
AddRef(l)    == phase = "ref" /\ Len(ref) < MaxRef /\ ref' = Append(ref, l) /\ UNCHANGED <<hap, phase, walk>>
DoneRef      == phase = "ref" /\ Len(ref) >= 1 /\ phase' = "hap" /\ UNCHANGED <<ref, hap, walk>>
AddHap(g, l) == /\ phase = "hap" /\ Len(hap) < MaxHap /\ (hap = <<>> => g = 0)
                /\ hap' = Append(hap, <<g, l>>) /\ UNCHANGED <<ref, phase, walk>>
DoneHap      == phase = "hap" /\ phase' = "walk" /\ UNCHANGED <<ref, hap, walk>>
Ext(o, k)    == /\ phase = "walk" /\ Len(walk) < MaxWalk /\ k \in 1..NNodes
                /\ walk' = Append(walk, <<o, k>>) /\ UNCHANGED <<ref, hap, phase>>
GNext == \/ \E l \in Lens : AddRef(l) \/ (\E g \in Gaps : AddHap(g, l))
         \/ DoneRef \/ DoneHap
         \/ \E o \in {">", "<"}, k \in 1..(MaxRef + MaxHap) : Ext(o, k)
GSpec == GInit /\ [][GNext]_gvars

(* the graph denoted by the generator state: nodes 1..NNodes, chr1 tiled by ref, hapA by hap *)
RECURSIVE PrefixSum(_, _)
PrefixSum(s, k) == IF k = 0 THEN 0 ELSE PrefixSum(s, k - 1) + s[k]
HapStart(k) == HapBase + PrefixSum([j \in 1..Len(hap) |-> hap[j][1] + hap[j][2]], k - 1) + hap[k][1]
GenSegs == [n \in 1..NNodes |->
              IF n <= Len(ref) THEN [sn |-> "chr1", so |-> PrefixSum(ref, n - 1), ln |-> ref[n]]
              ELSE [sn |-> "hapA", so |-> HapStart(n - Len(ref)), ln |-> hap[n - Len(ref)][2]]]
GenPath == [k \in 1..Len(walk) |-> [k |-> "node", o |-> walk[k][1], id |-> walk[k][2]]]
(* design sanity: positions of a walk are well formed and flipping twice is the identity *)
GenOK == phase = "walk" /\ walk # <<>> =>
           LET c == Concat(GenSegs, GenPath) IN
             /\ Len(c) = SumLen(GenSegs, GenPath)
             /\ FlipSeq(FlipSeq(c)) = c
             /\ \A k \in 1..Len(c) : 0 <= c[k][2] /\ c[k][2] < GenSegs[c[k][1]].ln
=============================================================================
