---- MODULE Check_Coords ----
(* Code -> spec for C01 / C02.  One case = one (graph, walk): for every start/end offset pair  *)
(* the unstable record u was converted by `gaftools view --format stable` (s), that output by   *)
(* `--format unstable` (u2), and that output to stable again (s2).                              *)
EXTENDS Coords, Json, IOUtils
Cases == ndJsonDeserialize(IOEnv.CASES)
VARIABLE i

ConvVerdict(segs, x, y, tag) ==      \* y is the conversion of x
  IF ~WellFormed(segs, y) THEN tag \o "_output_malformed"
  ELSE IF ~SameLocus(segs, x, y) THEN tag \o "_different_locus"
  ELSE IF CigarRO(y) # CigarRO(x) THEN tag \o "_cigar_orientation"
  ELSE IF ~PathLenOK(segs, y) THEN tag \o "_path_length"
  ELSE "ok"

Same(x, y) == /\ x.strand = y.strand /\ x.path = y.path /\ x.plen = y.plen
              /\ x.ps = y.ps /\ x.pe = y.pe /\ x.cigar = y.cigar /\ x.cgpos = y.cgpos
Untouched(x, y) == x.keep = y.keep /\ x.opt = y.opt

FirstBad(c, F(_, _), n) ==
  LET bad == {k \in 1..n : F(c.segs, c.recs[k]) # "ok"} IN
  IF bad = {} THEN "ok" ELSE F(c.segs, c.recs[CHOOSE k \in bad : \A j \in bad : k <= j])

V01(segs, q) ==
  LET a == ConvVerdict(segs, q.u, q.s, "to_stable") IN
  IF a # "ok" THEN a ELSE ConvVerdict(segs, q.s, q.u2, "to_unstable")

V02(segs, q) ==
  IF ~Untouched(q.u, q.s) THEN "to_stable_touched_other_columns"
  ELSE IF ~Untouched(q.s, q.u2) THEN "to_unstable_touched_other_columns"
  ELSE IF Canonical(segs, q.u) /\ ~Same(q.u, q.u2) THEN "unstable_round_trip"
  ELSE IF Canonical(segs, q.u) /\ ~Same(q.s, q.s2) THEN "stable_round_trip"
  ELSE "ok"

(* c.sel: selections made with --node a --node b --format stable on the same file: exp = the read names of the records that *)
(* touch a or b, in input order                                                                                                *)
SelVerdict(c) ==
  IF \E k \in 1..Len(c.sel) : c.sel[k].status # "ok" THEN "selection_with_format_failed"
  ELSE IF \E k \in 1..Len(c.sel) : c.sel[k].got # c.sel[k].exp THEN "selection_with_format_not_the_touching_records_in_input_order"
  ELSE IF \E k \in 1..Len(c.sel) : ~c.sel[k].same_as_whole_file_conversion THEN "selection_with_format_differs_from_whole_file_conversion"
  ELSE "ok"
Verdict(c) ==
  IF c.status # "ok" THEN "conversion_failed_" \o c.status
  ELSE IF SelVerdict(c) # "ok" THEN SelVerdict(c)
  ELSE IF c.mode = "C01" THEN FirstBad(c, V01, Len(c.recs))
  ELSE FirstBad(c, V02, Len(c.recs))

CInit == i = 1 /\ GInit
CNext == /\ i <= Len(Cases)
         /\ PrintT(<<"VERDICT", Cases[i].id, Verdict(Cases[i])>>)
         /\ i' = i + 1 /\ UNCHANGED gvars
CSpec == CInit /\ [][CNext]_<<i, gvars>>
AllConsumed == TLCGet("stats").diameter - 1 = Len(Cases)
====
