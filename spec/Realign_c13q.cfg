SPECIFICATION Spec
CONSTANTS R = 3  B = 1  C = 2  Cap = 2  MaxFaults = 1  FaultKinds = {"kill", "crash"}  Fixed = TRUE
INVARIANT TypeOK
INVARIANT NoCrash
INVARIANT OutPrefix
INVARIANT FinishedComplete
INVARIANT NoAbortWithoutFault
INVARIANT NoLiveWorkerAtExit
PROPERTY Terminates
CHECK_DEADLOCK FALSE
