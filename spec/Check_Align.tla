---- MODULE Check_Align ----
(* Code -> spec for C12: one case = one record pushed through `gaftools realign`.  c.seq is the   *)
(* node sequence map, c.walk/ps/pe the path slice, c.read the read slice query[qs:qe] (taken from  *)
(* the FASTA the harness wrote), c.icg / c.ocg the input and output CIGAR as <<n, op>> runs,       *)
(* c.icols / c.ocols the 12 columns, c.iopt / c.oopt the other optional fields.                    *)
EXTENDS Align, Json, IOUtils
Cases == ndJsonDeserialize(IOEnv.CASES)
VARIABLE i
Ref(c) == SubSeq(Spell(c.seq, c.walk), c.ps + 1, c.pe)
Verdict(c) ==
  IF c.status # "ok" THEN "realign_failed_" \o c.status
  ELSE IF c.missing THEN "record_missing"
  ELSE IF ~c.in_order THEN "records_not_one_per_input_record_in_input_order"
  ELSE IF \E k \in {1, 2, 3, 4, 5, 6, 7, 8, 9, 12} : c.ocols[k] # c.icols[k] THEN "other_column_altered"
  ELSE IF c.oopt # c.iopt THEN "optional_fields_altered"
  ELSE IF c.icgpos # 0 /\ c.ocgpos # c.icgpos THEN "cigar_field_moved_among_the_optional_fields"      \* rewritten in place
  ELSE IF c.long THEN (IF c.ocols = c.icols /\ c.ocg = c.icg THEN "ok" ELSE "long_alignment_not_passed_through")
  ELSE LET r == RunWalk(c.read, Ref(c), c.ocg) IN
       IF r[3] # 0 THEN (IF c.ocg[r[3]][2] = "=" THEN "match_column_pairs_unequal_bases"
                         ELSE IF c.ocg[r[3]][2] = "X" THEN "mismatch_column_pairs_equal_bases" ELSE "cigar_overruns_a_sequence")
       ELSE IF r[1] # Len(c.read) \/ r[2] # Len(Ref(c)) THEN "cigar_not_end_to_end"
       ELSE IF c.ocols[10] # ToString(RunCount(c.ocg, "=")) THEN "match_count_disagrees_with_cigar"
       ELSE IF c.ocols[11] # ToString(RunLen(c.ocg)) THEN "block_length_disagrees_with_cigar"
       ELSE IF LET q == RunWalk(c.read, Ref(c), c.icg) IN q[3] # 0 \/ q[1] # Len(c.read) \/ q[2] # Len(Ref(c)) THEN "harness_input_cigar_invalid"
       ELSE IF RunCost(c.ocg) > RunCost(c.icg) THEN "cost_worse_than_input"
       ELSE "ok"
CInit == i = 1 /\ AInit
CNext == /\ i <= Len(Cases)
         /\ PrintT(<<"VERDICT", Cases[i].id, Verdict(Cases[i])>>)
         /\ i' = i + 1 /\ UNCHANGED avars
CSpec == CInit /\ [][CNext]_<<i, avars>>
AllConsumed == TLCGet("stats").diameter - 1 = Len(Cases)
====
