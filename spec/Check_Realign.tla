---- MODULE Check_Realign ----
(* Code -> spec for C11/C13: each case is a trace recorded from the real realign_gaf running  *)
(* under the deterministic scheduler (harness/sched.py) with a seeded random schedule.        *)
(* The trace is accepted iff every event is an enabled action of Realign in the state reached *)
(* so far, the observed data (items, liveness answers, exit-code answers, written records)    *)
(* equal what the specification's state dictates, and the way the run ended matches.          *)
EXTENDS Realign, Json, IOUtils
Cases == ndJsonDeserialize(IOEnv.CASES)
VARIABLE i

LastOf(s) == s[Len(s)]
ObsOK(S, T, e) ==
  CASE e.t = "WPut"      -> e.item = LastOf(T.buf[e.w])
    [] e.t = "WSentinel" -> e.item = 0
    [] e.t = "WFlush"    -> e.item = Head(S.buf[e.w])
    [] e.t = "PStart"    -> e.W = WOf(S.grp)
    [] e.t = "PGetItem"  -> e.item = Head(S.pipe)
    [] e.t = "PAlive"    -> e.alive = (T.ppc = "get")
    [] e.t = "PExitChk"  -> e.bad = (T.ppc = "aborted")
    [] e.t = "PDrain"    -> e.prios = S.pq
    [] OTHER -> TRUE

RECURSIVE Run(_, _, _)
Run(S, tr, k) ==
  IF k > Len(tr) THEN [why |-> "ok", S |-> S]
  ELSE LET e == tr[k] IN
    IF e.t \in {"HANG", "LIVELOCK", "STUCK"} THEN [why |-> "impl_" \o e.t \o "_" \o e.why, S |-> S]
    ELSE IF ~Enabled(S, e) THEN [why |-> "not_enabled_" \o e.t \o "_in_" \o S.ppc, S |-> S]
    ELSE LET T == Step(S, e) IN
      IF ~ObsOK(S, T, e) THEN [why |-> "observation_" \o e.t, S |-> S]
      ELSE Run(T, tr, k + 1)

Verdict(c) ==
  LET r == Run(InitState, c.trace, 1) IN
  IF r.why # "ok" THEN r.why
  ELSE IF c.end = "crashed" THEN "impl_crashed"
  ELSE IF c.end # r.S.ppc THEN "end_" \o c.end \o "_spec_" \o r.S.ppc
  ELSE IF c.end = "finished" /\ r.S.out # Ident(R) THEN "finished_incomplete"
  ELSE IF c.end = "finished" /\ c.lines # c.ref THEN "differs_from_single_core"
  ELSE IF c.end = "aborted" /\ r.S.faults = 0 THEN "abort_without_fault"
  ELSE "ok"

CInit == i = 1 /\ Init
CNext == /\ i <= Len(Cases)
         /\ PrintT(<<"VERDICT", Cases[i].id, Verdict(Cases[i])>>)
         /\ i' = i + 1 /\ UNCHANGED vars
CSpec == CInit /\ [][CNext]_<<i, vars>>
AllConsumed == TLCGet("stats").diameter - 1 = Len(Cases)
====
