SPECIFICATION VSpec
CONSTANTS MaxRef = 3  MaxHap = 1  Lens = {1, 2}  Gaps = {0}  MaxWalk = 0  HapBase = 1
          Extras = {"none", "back", "inv"}  MaxAvoid = 1  WalkLen = 2
INVARIANT SessionOK
CHECK_DEADLOCK FALSE
