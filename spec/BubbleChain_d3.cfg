SPECIFICATION BSpec
CONSTANTS MaxChrom = 3  MaxUnits = 1  Kinds = {"snp"}  EndKinds = {"tip"}  Defects = {"branch", "branchalt", "branchref", "join", "cycle3", "cycle3in"}  MaxDefects = 2  MinUnits = 0  Pattern <- NoPattern  Wholes = {}
INVARIANT LexSanity
CHECK_DEADLOCK FALSE
