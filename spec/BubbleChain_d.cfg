SPECIFICATION BSpec
CONSTANTS MaxChrom = 2  MaxUnits = 1  Kinds = {"edge", "snp", "inv"}  EndKinds = {"tip"}  Defects = {"branch", "branchalt", "branchref", "join", "cycle3", "cycle3in"}  MaxDefects = 2  MinUnits = 0  Pattern <- NoPattern  Wholes = {}
INVARIANT LexSanity
CHECK_DEADLOCK FALSE
