---- MODULE Check_Tags ----
(* Code -> spec for C16: one case = one file pushed through one re-emitting command           *)
(* (view --node, view --format, view --node --format, realign).  c.recs[k].inp / .out are the   *)
(* k-th input and output line split into 12 columns and optional fields <<tag, type, value>>    *)
(* (split at the first two colons, nothing else interpreted).                                   *)
EXTENDS GafRecord, Json, IOUtils
Cases == ndJsonDeserialize(IOEnv.CASES)
VARIABLE i
FirstSpace(s) == LET P == {k \in 1..Len(s) : SubSeq(s, k, k) = " "} IN IF P = {} THEN 0 ELSE CHOOSE k \in P : \A j \in P : k <= j
CutName(s) == IF FirstSpace(s) = 0 THEN s ELSE SubSeq(s, 1, FirstSpace(s) - 1)
Kept(mode) == CASE mode \in {"node", "node_same_path_now_bgzf"} -> {2, 3, 4, 5, 6, 7, 8, 9, 10, 11, 12}
                [] mode \in {"stable", "unstable", "node_stable"} -> {2, 3, 4, 10, 11, 12}
                [] mode = "realign" -> {2, 3, 4, 5, 6, 7, 8, 9, 12}
RecVerdict(mode, a, b, pt) ==
  IF Len(b.cols) # 12 THEN "malformed_line"
  ELSE IF b.cols[1] # CutName(a.cols[1]) THEN "read_name_altered"
  ELSE IF \E k \in Kept(mode) : b.cols[k] # a.cols[k] THEN "mandatory_column_altered"
  ELSE TagsVerdict(a.opt, b.opt, mode = "realign" /\ ~pt)      \* only a record that realign really realigns may gain a cg field
Verdict(c) ==
  IF c.status # "ok" THEN {"command_failed_" \o c.status}
  ELSE IF \E k \in 1..Len(c.recs) : c.recs[k].missing THEN {"record_missing_in_output"}
  ELSE IF ~c.in_order THEN {"records_not_in_input_order"}
  ELSE {RecVerdict(c.path, c.recs[k].inp, c.recs[k].out, c.recs[k].pt) : k \in 1..Len(c.recs)} \ {"ok"}     \* the set of failing clauses
CInit == i = 1 /\ RInit
CNext == /\ i <= Len(Cases)
         /\ PrintT(<<"VERDICT", Cases[i].id, Verdict(Cases[i])>>)
         /\ i' = i + 1 /\ UNCHANGED rvars
CSpec == CInit /\ [][CNext]_<<i, rvars>>
AllConsumed == TLCGet("stats").diameter - 1 = Len(Cases)
====
