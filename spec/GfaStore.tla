----------------------------- MODULE GfaStore -----------------------------
(* The in-memory graph object (gaftools/gfa.py: GFA / Node) as a state machine.            *)
(*   AddNode(n)                    <-> GFA.add_node(n, seq)   (a no-op for an identifier that is alive) *)
(*   AddLink(a, ao, b, bo, ov, tg) <-> GFA.add_edge(a, ao, b, bo, ov, tags)   (E_DIR sides) *)
(*   DelNode(n)                    <-> GFA.remove_node(n)  (remove_edge for every incident link) *)
(* Abstract state: node set, set of links between node sides, and the link-tag table which  *)
(* the code keys by the *declared* direction <<a, side_a, b, side_b>> (GFA.edge_tags).       *)
(* Queries (components, blocks, articulation points, dfs, path spelling) are operators of   *)
(* RGFA evaluated on this state.                                                            *)
EXTENDS RGFA, TLC

CONSTANTS Ids,        \* node ids (naturals; the harness names them n<k>)
          Ovs,        \* overlaps
          TagVals,    \* link tag lists, <<>> = add_edge(..., tags=None)
          Signs,      \* orientation signs usable in AddLink, subset of {"+","-"}
          Simple,     \* TRUE: only links a -> b with a < b (simple graphs)
          MaxLinks, MaxDels

VARIABLES nodes, links, etags, ndel
vars == <<nodes, links, etags, ndel>>

KeyOf(a, ao, b, bo) == <<a, OutSide(ao), b, InSide(bo)>>

St == [nodes |-> nodes, links |-> links, etags |-> etags]

ApplyAddNode(S, n) == [S EXCEPT !.nodes = @ \cup {n}]
ApplyAddLink(S, a, ao, b, bo, ov, tg) ==
  [nodes |-> S.nodes,
   links |-> S.links \cup {MkLink(a, ao, b, bo, ov)},
   etags |-> IF tg # <<>> THEN (KeyOf(a, ao, b, bo) :> tg) @@ S.etags ELSE S.etags]
ApplyDelNode(S, n) ==
  [nodes |-> S.nodes \ {n},
   links |-> {l \in S.links : n \notin LinkNodes(l)},
   etags |-> [k \in {k \in DOMAIN S.etags : k[1] # n /\ k[3] # n} |-> S.etags[k]]]

(* one operation of a history, as a record; Apply is the single source of truth for traces *)
OpEnabled(S, o) ==
  CASE o.op = "AddNode" -> TRUE                    \* adding an identifier that is alive changes nothing (the code warns)
    [] o.op = "AddLink" -> o.a \in S.nodes /\ o.b \in S.nodes
    [] o.op = "DelNode" -> o.n \in S.nodes
Apply(S, o) ==
  CASE o.op = "AddNode" -> ApplyAddNode(S, o.n)
    [] o.op = "AddLink" -> ApplyAddLink(S, o.a, o.ao, o.b, o.bo, o.ov, o.tg)
    [] o.op = "DelNode" -> ApplyDelNode(S, o.n)
EmptyStore == [nodes |-> {}, links |-> {}, etags |-> <<>>]

Set(T) == /\ nodes' = T.nodes /\ links' = T.links /\ etags' = T.etags

Init == nodes = {} /\ links = {} /\ etags = <<>> /\ ndel = 0

AddNode(n) == /\ n \in nodes => links # {}      \* re-adding a live node: explored once the graph has a link to lose
              /\ Set(ApplyAddNode(St, n)) /\ UNCHANGED ndel
AddLink(a, ao, b, bo, ov, tg) ==
              /\ a \in nodes /\ b \in nodes
              /\ Simple => a < b
              /\ Cardinality(links \cup {MkLink(a, ao, b, bo, ov)}) <= MaxLinks
              /\ Set(ApplyAddLink(St, a, ao, b, bo, ov, tg)) /\ UNCHANGED ndel
DelNode(n) == /\ n \in nodes /\ ndel < MaxDels
              /\ Set(ApplyDelNode(St, n)) /\ ndel' = ndel + 1

Next == \/ \E n \in Ids : AddNode(n) \/ DelNode(n)
        \/ \E a \in Ids, b \in Ids, ao \in Signs, bo \in Signs, ov \in Ovs, tg \in TagVals :
               AddLink(a, ao, b, bo, ov, tg)
Spec == Init /\ [][Next]_vars

----------------------------------------------------------------------------
(* Properties of the design (C15, second sentence).                          *)
H == HalfEdges(links)
Symmetric   == \A h \in H : <<h[3], h[4], h[1], h[2], h[5]>> \in H
NoDangling  == /\ \A l \in links : LinkNodes(l) \subseteq nodes
               /\ \A k \in DOMAIN etags : k[1] \in nodes /\ k[3] \in nodes
TagsOfLinks == \A k \in DOMAIN etags : \E l \in links : l.ends = {<<k[1], k[2]>>, <<k[3], k[4]>>}
(* deleting is the inverse of adding: the state never remembers a deleted node *)
DelForgets  == [][\A n \in Ids : DelNode(n) =>
                   /\ \A l \in links' : n \notin LinkNodes(l)
                   /\ \A k \in DOMAIN etags' : k[1] # n /\ k[3] # n]_vars

(* Walk laws (C14, second sentence), checked on every reachable graph for all short step lists *)
Steps == {">", "<"} \X Ids
WalkSeqs(K) == UNION {[1..k -> Steps] : k \in 1..K}
WalkReverseLaw(K) == \A p \in WalkSeqs(K) : IsWalk(nodes, links, RevWalk(p)) <=> IsWalk(nodes, links, p)

(* Decomposition laws (C15, first sentence): the declarative definitions are self-consistent *)
DecompLaws ==
  \A C \in CompsOf(nodes, Edges(links)) :
     LET d == Decomp(C, Edges(links)) IN
       /\ \A e \in Edges(links) : (Cardinality(e) = 2 /\ e \subseteq C) =>
              Cardinality({B \in d.blocks : e \subseteq B}) = 1
       /\ d.blocks = BlocksByDef(C, Edges(links))
       /\ \A v \in C : (v \in d.artic) <=> (Cardinality({B \in d.blocks : v \in B}) >= 2)
=============================================================================
