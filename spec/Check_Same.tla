---- MODULE Check_Same ----
(* Code -> spec for C17: one case = one command run on identical content under each combination *)
(* of {plain, BGZF} GAF and {plain, gzip} graph; c.results[k] is the abstract result of          *)
(* configuration k (records, report, node -> records after resolving offsets by seeking the      *)
(* real file); c.oracle_ok says whether the command's own property check accepted the plain run. *)
EXTENDS Integers, Sequences, TLC, Json, IOUtils
Cases == ndJsonDeserialize(IOEnv.CASES)
VARIABLE i
Verdict(c) ==
  IF \E k \in 1..Len(c.results) : c.results[k].status # "ok" THEN
       (IF \A k \in 1..Len(c.results) : c.results[k].status # "ok" THEN "fails_under_every_configuration_" \o c.cmd
        ELSE "fails_under_some_configuration_" \o c.cmd)
  ELSE IF \E k \in 2..Len(c.results) : c.results[k].value # c.results[1].value THEN
       LET k == CHOOSE k \in 2..Len(c.results) : c.results[k].value # c.results[1].value
       IN "differs_" \o c.cmd \o "_" \o c.results[k].cfg
  ELSE IF \E k \in 1..Len(c.results) : ~c.results[k].resolved THEN "offset_does_not_resolve_" \o c.cmd
  ELSE "ok"
Init == i = 1
Next == /\ i <= Len(Cases)
        /\ PrintT(<<"VERDICT", Cases[i].id, Verdict(Cases[i])>>)
        /\ i' = i + 1
Spec == Init /\ [][Next]_i
AllConsumed == TLCGet("stats").diameter - 1 = Len(Cases)
====
