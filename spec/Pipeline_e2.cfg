SPECIFICATION PSpec
CONSTANTS MaxDepth = 2  Resort = "replace"  MaxLen = 0
INVARIANT TagsUniquePhase
CHECK_DEADLOCK FALSE
