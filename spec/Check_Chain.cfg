SPECIFICATION CSpec
CONSTANTS MaxChrom = 0  MaxUnits = 0  Kinds = {}  EndKinds = {}  Defects = {}  MaxDefects = 0  MinUnits = 0  Pattern <- NoPattern  Wholes = {}
POSTCONDITION AllConsumed
CHECK_DEADLOCK FALSE
