SPECIFICATION VSpec
CONSTANTS MaxRef = 4  MaxHap = 1  Lens = {1, 2}  Gaps = {0}  MaxWalk = 0  HapBase = 1
          Extras = {"none"}  MaxAvoid = 0  WalkLen = 3
INVARIANT SessionOK
CHECK_DEADLOCK FALSE
