SPECIFICATION BSpec
CONSTANTS MaxChrom = 2  MaxUnits = 1  Kinds = {"edge", "snp", "ins", "multi", "inv", "nested"}  EndKinds = {"tip", "endsnp"}  Defects = {}  MaxDefects = 0  MinUnits = 0  Pattern <- NoPattern  Wholes = {}
INVARIANT LexSanity
CHECK_DEADLOCK FALSE
