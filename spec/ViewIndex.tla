----------------------------- MODULE ViewIndex -----------------------------
(* `gaftools index` (.gvi) and `gaftools view --node / --region` over an indexed GAF.           *)
(*                                                                                              *)
(* Meaning of the index and of the queries, declaratively:                                      *)
(*   NodesOf(segs, r)   the nodes a record traverses - for an unstable path the nodes on it;    *)
(*                      for a stable path the nodes whose stable interval overlaps one of its   *)
(*                      intervals, or (bare contig) its [start, end) span                       *)
(*   IndexOf(segs, F)   node |-> set of positions in file F of the records traversing it        *)
(*   Select(segs, F, N) the positions selected by --node N1 --node N2 ...                       *)
(*   Must/May(segs, reg) node sets under a region with half-open / closed end                   *)
(* and a generator of sessions: an rGFA with realistic links (reference chain, one bubble per   *)
(* haplotype segment - so haplotype segments are never adjacent in the graph -, optionally a    *)
(* back link or an inversion link giving revisits), and the file of ALL walks of bounded length *)
(* that avoid a chosen set of nodes (the avoided nodes are the ones without alignments).        *)
EXTENDS Coords, RGFA

Overlaps(segs, n, ctg, a, b) == segs[n].sn = ctg /\ segs[n].so < b /\ a < segs[n].so + segs[n].ln
StepNodes(segs, st) == IF st.k = "node" THEN {st.id}
                       ELSE {n \in DOMAIN segs : Overlaps(segs, n, st.ctg, st.a, st.b)}
NodesOf(segs, r) == IF IsBare(r) THEN {n \in DOMAIN segs : Overlaps(segs, n, r.path[1].ctg, r.ps, r.pe)}
                    ELSE UNION {StepNodes(segs, r.path[k]) : k \in 1..Len(r.path)}
IndexOf(segs, F) == [n \in DOMAIN segs |-> {k \in 1..Len(F) : n \in NodesOf(segs, F[k])}]
Select(segs, F, N) == {k \in 1..Len(F) : NodesOf(segs, F[k]) \cap N # {}}

(* region CONTIG:a-b with 0 <= a <= b *)
Must(segs, g) == IF g.a = g.b THEN {n \in DOMAIN segs : Holds(segs, n, g.ctg, g.a)}
                 ELSE {n \in DOMAIN segs : Overlaps(segs, n, g.ctg, g.a, g.b)}
May(segs, g)  == {n \in DOMAIN segs : Overlaps(segs, n, g.ctg, g.a, g.b + 1)}

-----------------------------------------------------------------------------
(* Session generator (uses Coords' variables ref, hap, phase, walk; walk stays empty) *)
CONSTANTS Extras, MaxAvoid, WalkLen
VARIABLES extra, avoid, walks, links
vvars == <<ref, hap, phase, walk, extra, avoid, walks, links>>

NR == Len(ref)
ChainLinks == {MkLink(k, "+", k + 1, "+", 0) : k \in 1..(NR - 1)}
BubbleLinks == UNION {{MkLink(IF j <= NR THEN j ELSE NR, "+", NR + j, "+", 0)} \cup
                      (IF j + 1 <= NR THEN {MkLink(NR + j, "+", j + 1, "+", 0)} ELSE {}) : j \in 1..Len(hap)}
ExtraLinks(x) == CASE x = "back" -> {MkLink(NR, "+", 1, "+", 0)}
                   [] x = "inv"  -> {MkLink(1, "+", 1, "-", 0)}
                   [] OTHER -> {}
GenLinks == ChainLinks \cup BubbleLinks \cup ExtraLinks(extra)
AllWalks(N, L, K) == UNION {{p \in [1..k -> {">", "<"} \X N] : IsWalk(N, L, p)} : k \in 1..K}

VInit == GInit /\ extra = "none" /\ avoid = {} /\ walks = {} /\ links = {}
VBuild == /\ phase \in {"ref", "hap"} /\ GNext /\ phase' # "walk" /\ UNCHANGED <<extra, avoid, walks, links>>
VExtra(x) == /\ phase = "hap" /\ extra = "none" /\ x # "none"
             /\ extra' = x /\ UNCHANGED <<ref, hap, phase, walk, avoid, walks, links>>
VAvoid(n) == /\ phase = "hap" /\ Cardinality(avoid) < MaxAvoid /\ n \in 1..NNodes /\ n \notin avoid
             /\ avoid' = avoid \cup {n} /\ UNCHANGED <<ref, hap, phase, walk, extra, walks, links>>
VClose == /\ phase = "hap"
          /\ phase' = "file"
          /\ walks' = AllWalks((1..NNodes) \ avoid, GenLinks, WalkLen)
          /\ links' = GenLinks
          /\ UNCHANGED <<ref, hap, walk, extra, avoid>>
VNext == VBuild \/ VClose \/ (\E x \in Extras : VExtra(x)) \/ (\E n \in 1..(MaxRef + MaxHap) : VAvoid(n))
VSpec == VInit /\ [][VNext]_vvars

(* design sanity on every generated session: the index is the inverse of NodesOf and selection *)
(* is the union of index entries                                                               *)
GenFile == LET W == walks IN [k \in 1..Cardinality(W) |-> 0]   \* (order is chosen by the harness)
SessionOK == phase = "file" =>
   LET segs == GenSegs
       recs == {[strand |-> "+", ps |-> 0, pe |-> SumLen(segs, [k \in 1..Len(p) |-> [k |-> "node", o |-> p[k][1], id |-> p[k][2]]]),
                 path |-> [k \in 1..Len(p) |-> [k |-> "node", o |-> p[k][1], id |-> p[k][2]]]] : p \in walks}
   IN /\ \A r \in recs : NodesOf(segs, r) = {r.path[k].id : k \in 1..Len(r.path)}
      /\ \A r \in recs : NodesOf(segs, r) \cap avoid = {}
      /\ \A n \in (1..NNodes) \ avoid : \E r \in recs : n \in NodesOf(segs, r)
=============================================================================
