SPECIFICATION CSpec
CONSTANTS Paths = {}
POSTCONDITION AllConsumed
CHECK_DEADLOCK FALSE
