SPECIFICATION QSpec
CONSTANTS Ids = {1, 2}  Ovs = {0, 3}  TagVals <- OneTag  Signs <- Both  Simple = FALSE  MaxLinks = 2  MaxDels = 1  MaxQ = 1  Sizes = {0}
INVARIANT VisInNodes
INVARIANT CleanIsExact
INVARIANT DirtyIsInduced
INVARIANT BfsDefaultIsStartOnly
INVARIANT BfsCleanIsComponent
INVARIANT DfsIsComponent
INVARIANT LonelyLaw
INVARIANT GfaPathDefined
INVARIANT Symmetric
INVARIANT NoDangling
PROPERTY AllComponentsCleans
PROPERTY FlagsOnlyGrow
CHECK_DEADLOCK FALSE
