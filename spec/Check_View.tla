---- MODULE Check_View ----
(* Code -> spec for C03 (index), C04 (view --node), C05 (view --region).  One case = one session *)
(* (rGFA, GAF file in one format and storage) with the unpickled index resolved to records by    *)
(* seeking the real file, and the outputs of ALL node lists up to length 2 / ALL regions.        *)
EXTENDS ViewIndex, Json, IOUtils
Cases == ndJsonDeserialize(IOEnv.CASES)
VARIABLE i

ToSet(s) == {s[k] : k \in DOMAIN s}
Pos(lines, l) == IF \E k \in 1..Len(lines) : lines[k] = l THEN CHOOSE k \in 1..Len(lines) : lines[k] = l ELSE 0
Increasing(s) == \A k \in 1..(Len(s) - 1) : s[k] < s[k + 1]
MinOf(S) == CHOOSE k \in S : \A j \in S : k <= j

\* ---- C03
V03(c) ==
  LET exp == IndexOf(c.segs, c.file)
      aligned == {n \in DOMAIN c.segs : exp[n] # {}}
      E == c.idx
  IN IF c.index_status # "ok" THEN "index_failed_" \o c.index_status
     ELSE IF {E[k].node : k \in 1..Len(E)} # aligned THEN
            (IF \E n \in aligned : \A k \in 1..Len(E) : E[k].node # n THEN "aligned_node_without_entry" ELSE "entry_for_unaligned_node")
     ELSE IF Len(E) # Cardinality(aligned) THEN "node_has_two_entries"
     ELSE IF \E k \in 1..Len(E) : E[k].key # <<E[k].node, c.segs[E[k].node].sn, c.segs[E[k].node].so,
                                               c.segs[E[k].node].so + c.segs[E[k].node].ln>> THEN "wrong_key"
     ELSE IF \E k \in 1..Len(E) : 0 \in ToSet(E[k].recs) THEN "offset_is_not_a_record_start"
     ELSE IF \E k \in 1..Len(E) : ~(ToSet(E[k].recs) \subseteq exp[E[k].node]) THEN "lists_record_not_traversing"
     ELSE IF \E k \in 1..Len(E) : ToSet(E[k].recs) # exp[E[k].node] THEN "misses_traversing_record"
     ELSE IF \E k \in 1..Len(E) : ~E[k].readline_ok THEN "gaf_read_line_disagrees"
     ELSE "ok"

\* ---- C04, C05 common: judge an output against an expected position set
OutVerdict(c, q, expset) ==
  LET pos == q.pos   \* position in the (converted) file of every output line, 0 = no such line (exact string match by the harness)
  IN IF q.status \in {"exception", "timeout"} THEN "internal_" \o q.status
     ELSE IF expset = {} THEN (IF q.status \in {"exit", "ok"} /\ q.pos = <<>> THEN "ok" ELSE "records_returned_although_nothing_matches")
     ELSE IF q.status # "ok" THEN "failed_although_records_match"
     ELSE IF \E k \in 1..Len(pos) : pos[k] = 0 THEN "record_content_differs"
     ELSE IF ~Increasing(pos) THEN "not_in_file_order_exactly_once"
     ELSE IF ~(ToSet(pos) \subseteq expset) THEN "returned_record_not_touching"
     ELSE IF ToSet(pos) # expset THEN "missed_record"
     ELSE "ok"

(* (a session whose file repeats its records thousands of times - c.singles_only - asks for single nodes only) *)
NodeLists(c) == LET N == DOMAIN c.segs IN {<<n>> : n \in N} \cup (IF c.singles_only THEN {} ELSE {<<n, m>> : n \in N, m \in N})
V04(c) ==
  LET Q == c.queries \o c.fqueries      \* plain selections, then selections with --format
      judge(q) == OutVerdict(c, q, Select(c.segs, c.file, ToSet(q.ns)))
      bad == {k \in 1..Len(Q) : judge(Q[k]) # "ok"}
  IN IF c.index_status # "ok" THEN "index_failed_" \o c.index_status
     ELSE IF {c.queries[k].ns : k \in 1..Len(c.queries)} # NodeLists(c) THEN "harness_queries_incomplete"
     ELSE IF c.cat_status # "ok" \/ c.cat_pos # [k \in 1..Len(c.file) |-> k] THEN "whole_file_not_reproduced"
     ELSE IF bad = {} THEN "ok" ELSE judge(Q[MinOf(bad)])

\* ---- C05
RegionSets(c, regs) ==   \* node sets between half-open and closed reading, per region, combined
  LET must == UNION {Must(c.segs, regs[k]) : k \in 1..Len(regs)}
      may  == UNION {May(c.segs, regs[k]) : k \in 1..Len(regs)}
  IN {must \cup X : X \in SUBSET (may \ must)}
V05q(c, q) ==
  LET cands == {Select(c.segs, c.file, S) : S \in RegionSets(c, q.regs)}
      got == ToSet(q.pos)
      best == IF got \in cands THEN got ELSE CHOOSE e \in cands : TRUE
  IN OutVerdict(c, q, best)
AllRegions(c) == {[ctg |-> g, a |-> a, b |-> b] : g \in {c.segs[n].sn : n \in DOMAIN c.segs}, a \in 0..20, b \in 0..20}
V05(c) ==
  LET Q == c.rqueries
      singles == {Q[k].regs[1] : k \in {j \in 1..Len(Q) : Len(Q[j].regs) = 1}}
      want == {g \in AllRegions(c) : g.a <= g.b /\ g.b < ContigLen(c.segs, g.ctg)}
      bad == {k \in 1..Len(Q) : V05q(c, Q[k]) # "ok"}
  IN IF c.index_status # "ok" THEN "index_failed_" \o c.index_status
     ELSE IF ~c.truncated /\ ~c.sampled /\ singles # want THEN "harness_regions_incomplete"
     ELSE IF bad = {} THEN "ok" ELSE V05q(c, Q[MinOf(bad)])

Verdict(c) == CASE c.mode = "C03" -> V03(c) [] c.mode = "C04" -> V04(c) [] c.mode = "C05" -> V05(c)

CInit == i = 1 /\ VInit
CNext == /\ i <= Len(Cases)
         /\ PrintT(<<"VERDICT", Cases[i].id, Verdict(Cases[i])>>)
         /\ i' = i + 1 /\ UNCHANGED vvars
CSpec == CInit /\ [][CNext]_<<i, vvars>>
AllConsumed == TLCGet("stats").diameter - 1 = Len(Cases)
====
