------------------------------- MODULE Storage -------------------------------
(* Two offset spaces for a line-oriented file.                                                 *)
(*   plain : an offset is the number of bytes before a position                                 *)
(*   BGZF  : the byte stream is cut into blocks of at most Payload bytes, each block compressed *)
(*           separately; a virtual offset is <<block, within>> (block = index of the block,     *)
(*           standing for its compressed file offset; 0 <= within <= block length).  The end of *)
(*           block b and the start of block b + 1 are the same position.                        *)
(* gaftools stores tell() values taken before readline() in its indexes (.gvi, .gsi) and seeks  *)
(* to them later.  The design property: for every file, every block size and every line i,      *)
(* ReadLine(Seek(TellBefore(i))) = line i - also when a line straddles several blocks.          *)
EXTENDS Integers, Sequences, FiniteSets, TLC
CONSTANTS Lens,        \* possible line lengths (without the terminator)
          MaxLines, Payloads
VARIABLES lines, payload      \* lines: sequence of line lengths; payload: bytes per block
tvars == <<lines, payload>>
Bytes(k) == LET RECURSIVE S(_) S(j) == IF j = 0 THEN 0 ELSE S(j - 1) + lines[j] + 1 IN S(k)   \* bytes in the first k lines
Total == Bytes(Len(lines))
PlainTell(i) == Bytes(i - 1)
NBlocks == (Total + payload - 1) \div payload
BlockLen(b) == IF b < NBlocks THEN payload ELSE Total - (NBlocks - 1) * payload
Virt(pos) == IF pos = Total /\ Total > 0 THEN <<NBlocks, BlockLen(NBlocks)>> ELSE <<pos \div payload + 1, pos % payload>>   \* canonical form
Resolve(v) == (v[1] - 1) * payload + v[2]                       \* byte position of a virtual offset (either form)
VirtForms(pos) == {v \in (1..NBlocks) \X (0..payload) : v[2] <= BlockLen(v[1]) /\ Resolve(v) = pos}
LineAt(pos) == IF \E i \in 1..Len(lines) : PlainTell(i) = pos THEN CHOOSE i \in 1..Len(lines) : PlainTell(i) = pos ELSE 0
SInit == lines = <<>> /\ payload \in Payloads
AddLine(l) == Len(lines) < MaxLines /\ lines' = Append(lines, l) /\ UNCHANGED payload
SNext == \E l \in Lens : AddLine(l)
SSpec == SInit /\ [][SNext]_tvars
RoundTrip == \A i \in 1..Len(lines) :
   /\ LineAt(PlainTell(i)) = i
   /\ \A v \in VirtForms(PlainTell(i)) : LineAt(Resolve(v)) = i       \* both forms at a block boundary read line i
   /\ VirtForms(PlainTell(i)) # {}
DistinctOffsets == \A i, j \in 1..Len(lines) : i # j => PlainTell(i) # PlainTell(j) /\ VirtForms(PlainTell(i)) \cap VirtForms(PlainTell(j)) = {}
Straddles == \E i \in 1..Len(lines) : Virt(PlainTell(i))[1] # Virt(PlainTell(i) + lines[i])[1]    \* (for coverage: some line crosses a block)
=============================================================================
