---- MODULE Check_C15 ----
(* Code -> spec for C15: each case is a history of add-node / add-link / delete-node operations  *)
(* executed on the real gaftools.gfa.GFA object.  After every operation the harness projects the *)
(* object's state (node ids, the two adjacency sets of every node, the link-tag table); at some   *)
(* points it also runs the queries (all_components, biccs per component, dfs from every node).    *)
(* The history is folded through GfaStore!Apply; projections must equal the specification's state *)
(* and query answers must equal the declarative definitions of RGFA on that state.                *)
EXTENDS GfaStore, Json, IOUtils
Cases == ndJsonDeserialize(IOEnv.CASES)
VARIABLE i

ToSet(s) == {s[k] : k \in DOMAIN s}
EtagSet(S) == {<<k[1], k[2], k[3], k[4], S.etags[k]>> : k \in DOMAIN S.etags}

ProjVerdict(S, p) ==
  LET half == ToSet(p.half)
      impl_nodes == ToSet(p.nodes)
  IN IF impl_nodes # S.nodes THEN "node_set_differs"
     ELSE IF \E h \in half : <<h[3], h[4], h[1], h[2], h[5]>> \notin half THEN "asymmetric_adjacency"
     ELSE IF \E h \in half : h[1] \notin impl_nodes \/ h[3] \notin impl_nodes THEN "dangling_adjacency"
     ELSE IF \E t \in ToSet(p.etags) : t[1] \notin impl_nodes \/ t[3] \notin impl_nodes THEN "dangling_link_tags"
     ELSE IF half # HalfEdges(S.links) THEN "adjacency_differs_from_direct_build"
     ELSE IF ToSet(p.etags) # EtagSet(S) THEN "link_tags_differ_from_direct_build"
     ELSE "ok"

QueryVerdict(S, q) ==
  LET Ed == Edges(S.links)
      comps == CompsOf(S.nodes, Ed)
  IN IF q.exc # "" THEN "query_exception"
     ELSE IF {ToSet(x) : x \in ToSet(q.comps)} # comps \/ Len(q.comps) # Cardinality(comps) THEN "components_wrong"
     ELSE IF \E k \in 1..Len(q.bicc) :
               LET C == ToSet(q.bicc[k].c)
                   d == Decomp(C, Ed)
               IN {ToSet(b) : b \in ToSet(q.bicc[k].blocks)} # d.blocks THEN "blocks_wrong"
     ELSE IF \E k \in 1..Len(q.bicc) : Len(q.bicc[k].blocks) # Cardinality(Decomp(ToSet(q.bicc[k].c), Ed).blocks) THEN "block_reported_twice"
     ELSE IF \E k \in 1..Len(q.bicc) : ToSet(q.bicc[k].artic) # Decomp(ToSet(q.bicc[k].c), Ed).artic THEN "articulation_points_wrong"
     ELSE IF \E k \in 1..Len(q.dfs) : ToSet(q.dfs[k].order) # Reach(q.dfs[k].s, S.nodes, Ed) THEN "dfs_wrong_node_set"
     ELSE IF \E k \in 1..Len(q.dfs) : Len(q.dfs[k].order) # Cardinality(ToSet(q.dfs[k].order)) THEN "dfs_visits_twice"
     ELSE "ok"

RECURSIVE Run(_, _, _)
Run(S, ev, k) ==
  IF k > Len(ev) THEN "ok"
  ELSE LET e == ev[k] IN
    IF e.exc # "" THEN "operation_exception_" \o e.o.op
    ELSE IF ~OpEnabled(S, e.o) THEN "harness_op_not_enabled"
    ELSE LET T == Apply(S, e.o)
             pv == IF e.skip THEN "ok" ELSE ProjVerdict(T, e.proj)     \* skip: graph read from a file, only its final state is observable
         IN IF pv # "ok" THEN pv
            ELSE LET qv == IF e.hasq THEN QueryVerdict(T, e.q) ELSE "ok"
                 IN IF qv # "ok" THEN qv ELSE Run(T, ev, k + 1)

Verdict(c) == Run(EmptyStore, c.events, 1)

CInit == i = 1 /\ Init
CNext == /\ i <= Len(Cases)
         /\ PrintT(<<"VERDICT", Cases[i].id, Verdict(Cases[i])>>)
         /\ i' = i + 1 /\ UNCHANGED vars
CSpec == CInit /\ [][CNext]_<<i, vars>>
AllConsumed == TLCGet("stats").diameter - 1 = Len(Cases)
====
