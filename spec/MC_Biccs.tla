---- MODULE MC_Biccs ----
EXTENDS Biccs
Both == {"+", "-"}
Plus == {"+"}
====
