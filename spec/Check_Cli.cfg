SPECIFICATION CSpec
POSTCONDITION AllConsumed
CHECK_DEADLOCK FALSE
