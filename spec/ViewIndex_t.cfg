SPECIFICATION VSpec
CONSTANTS MaxRef = 4  MaxHap = 2  Lens = {1, 2}  Gaps = {0, 2}  MaxWalk = 0  HapBase = 1
          Extras = {"none", "back", "inv"}  MaxAvoid = 2  WalkLen = 2
INVARIANT SessionOK
CHECK_DEADLOCK FALSE
