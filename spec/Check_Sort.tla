---- MODULE Check_Sort ----
(* Code -> spec for C08 / C09 / C10: one case = one `gaftools sort` run.  c.file are the input   *)
(* records (walk, ps, pe); c.out[k] is the k-th output line: pos = the input line it extends     *)
(* (exact prefix match by the harness, 0 = none) and extra = the fields after that prefix;       *)
(* c.gsi are the index entries with their offsets resolved to output ordinals (0 = not a line    *)
(* start).                                                                                       *)
EXTENDS SortGaf
Cases == ndJsonDeserialize(IOEnv.CASES)
VARIABLE i
ToSet(s) == {s[k] : k \in DOMAIN s}
PosSeq(c) == [k \in 1..Len(c.out) |-> c.out[k].pos]
IsPerm(c) == /\ Len(c.out) = Len(c.file) /\ ToSet(PosSeq(c)) = 1..Len(c.file)

V08(c) == IF c.status # "ok" THEN "sort_failed_" \o c.status
          ELSE IF ~IsPerm(c) THEN "output_not_a_permutation"
          ELSE IF \E k \in 1..(Len(c.out) - 1) : KeyBO(c.file[c.out[k].pos]) = 0 - 1 /\ KeyBO(c.file[c.out[k + 1].pos]) # 0 - 1
               THEN "untagged_anchor_before_tagged"
          ELSE IF ~OrderOK(c.file, PosSeq(c)) THEN
               (IF \E k \in 1..(Len(c.out) - 1) : SameKey(c.file[c.out[k].pos], c.file[c.out[k + 1].pos]) /\ c.out[k].pos > c.out[k + 1].pos
                     /\ KeyBO(c.file[c.out[k].pos]) # 0 - 1
                THEN "exact_tie_not_in_input_order" ELSE "not_sorted_by_bo_no_start")
          ELSE "ok"

FieldsOK(r, e) == /\ Len(e) = 3
                  /\ e[1] = <<"bo", "i", ToString(KeyBO(r))>>
                  /\ e[2] = <<"sn", "Z", Sn(r)>>
                  /\ e[3] = <<"iv", "i", ToString(Iv(r))>>
V09(c) == IF c.status # "ok" THEN "sort_failed_" \o c.status
          ELSE IF Len(c.out) # Len(c.file) THEN "record_count_differs"
          ELSE IF \E k \in 1..Len(c.out) : c.out[k].pos = 0 THEN "record_altered_or_foreign"
          ELSE IF ToSet(PosSeq(c)) # 1..Len(c.file) THEN "record_duplicated_or_dropped"
          ELSE IF \E k \in 1..Len(c.out) : Len(c.out[k].extra) # 3 THEN "not_exactly_three_fields_appended"
          ELSE IF \E k \in 1..Len(c.out) : <<"bo", "i", ToString(KeyBO(c.file[c.out[k].pos]))>> \notin ToSet(c.out[k].extra) THEN "wrong_bo_field"
          ELSE IF \E k \in 1..Len(c.out) : <<"sn", "Z", Sn(c.file[c.out[k].pos])>> \notin ToSet(c.out[k].extra) THEN "wrong_sn_field"
          ELSE IF \E k \in 1..Len(c.out) : <<"iv", "i", ToString(Iv(c.file[c.out[k].pos]))>> \notin ToSet(c.out[k].extra) THEN "wrong_iv_field"
          ELSE "ok"

V10(c) == IF c.status # "ok" THEN "sort_failed_" \o c.status
          ELSE IF ~c.gsi_exists THEN "no_index_written"
          ELSE IF ~IsPerm(c) THEN "output_not_a_permutation"
          ELSE LET exp == GsiOf(c.file, PosSeq(c))
                   got == c.gsi
               IN IF \E k \in 1..Len(got) : got[k][1] = "unknown" THEN "index_has_unknown_key"
                  ELSE IF {got[k][1] : k \in 1..Len(got)} # DOMAIN exp \/ Len(got) # Cardinality(DOMAIN exp) THEN "index_contigs_wrong"
                  ELSE IF \E k \in 1..Len(got) : got[k][2] = 0 \/ got[k][3] = 0 THEN "offset_is_not_a_record_start"
                  ELSE IF \E k \in 1..Len(got) : Sn(c.file[c.out[got[k][2]].pos]) # got[k][1] \/ Sn(c.file[c.out[got[k][3]].pos]) # got[k][1] THEN "offset_resolves_to_other_contig"
                  ELSE IF \E k \in 1..Len(got) : got[k][2] # exp[got[k][1]][1] THEN "first_offset_wrong"
                  ELSE IF \E k \in 1..Len(got) : got[k][3] # exp[got[k][1]][2] THEN "last_offset_wrong"
                  ELSE IF ~c.reader_ok THEN "seek_with_gaftools_reader_disagrees"
                  ELSE "ok"

Verdict(c) == CASE c.mode = "C08" -> V08(c) [] c.mode = "C09" -> V09(c) [] c.mode = "C10" -> V10(c)
CInit == i = 1 /\ SInit
CNext == /\ i <= Len(Cases)
         /\ PrintT(<<"VERDICT", Cases[i].id, Verdict(Cases[i])>>)
         /\ i' = i + 1 /\ UNCHANGED svars
CSpec == CInit /\ [][CNext]_<<i, svars>>
AllConsumed == TLCGet("stats").diameter - 1 = Len(Cases)
====
