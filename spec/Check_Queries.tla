---- MODULE Check_Queries ----
(* Code -> spec for the library growth module GfaQueries: each case is a history of public calls *)
(* on one real gaftools.gfa.GFA object (edits, flag-using queries), recorded with the returned  *)
(* value, the projection of the object (nodes, adjacency, link tags, visited flags) after the   *)
(* call, and the answers of the pure queries at that point.  The history is folded through      *)
(* GfaQueries!QApply; every recorded item must equal what the specification computes.           *)
EXTENDS GfaQueries, Json, IOUtils
Cases == ndJsonDeserialize(IOEnv.CASES)
VARIABLE i

EtagSet(S) == {<<k[1], k[2], k[3], k[4], S.etags[k]>> : k \in DOMAIN S.etags}
ProjVerdict(S, p) ==
  LET half == ToSet(p.half)
  IN IF ToSet(p.nodes) # S.nodes THEN "node_set_differs"
     ELSE IF half # HalfEdges(S.links) THEN "adjacency_differs"
     ELSE IF ToSet(p.etags) # EtagSet(S) THEN "link_tags_differ"
     ELSE "ok"

RetVerdict(o, R, ret) ==
  CASE o.op = "FindComponent" -> IF ToSet(ret) = R.ret /\ Len(ret) = Cardinality(R.ret) THEN "ok" ELSE "find_component_differs"
    [] o.op = "Bfs" -> IF ToSet(ret) = R.ret THEN "ok" ELSE "bfs_differs"
    [] o.op = "AllComponents" -> IF {ToSet(c) : c \in ToSet(ret)} = R.ret /\ Len(ret) = Cardinality(R.ret) THEN "ok" ELSE "all_components_differs"
    [] OTHER -> "ok"

PureVerdict(S, q) ==
  IF ~q.asked THEN "ok"
  ELSE IF q.exc # "" THEN "pure_query_exception"
  ELSE IF \E k \in 1..Len(q.dfs) : q.dfs[k].order # Dfs(S, q.dfs[k].s) THEN "dfs_order_differs"
  ELSE IF {q.dfs[k].s : k \in 1..Len(q.dfs)} # S.nodes THEN "harness_dfs_incomplete"
  ELSE IF \E k \in 1..Len(q.lists) : q.lists[k].is_path # ListIsPath(S, q.lists[k].p) THEN "list_is_path_differs"
  ELSE IF \E k \in 1..Len(q.lists) : LET a == ReturnGfaPath(S, q.lists[k].p) IN
                                       q.lists[k].err # a.err \/ q.lists[k].steps # a.steps THEN "return_gfa_path_differs"
  ELSE IF \E k \in 1..Len(q.walks) : q.walks[k].ok # PathExists(S, q.walks[k].w) THEN "path_exists_differs"
  ELSE IF ~q.bicc_one_of THEN "ok"     \* graph too large for the harness to ask
  ELSE IF [blocks |-> {ToSet(b) : b \in ToSet(q.bicc.blocks)}, artic |-> ToSet(q.bicc.artic)] \notin BiccsAnswers(S) \cup (IF S.nodes = {} THEN {[blocks |-> {}, artic |-> {}]} ELSE {})
       THEN "biccs_whole_graph_differs"
  ELSE "ok"

RECURSIVE Run(_, _, _, _)
Run(S, V, ev, k) ==
  IF k > Len(ev) THEN "ok"
  ELSE LET e == ev[k] IN
    IF e.exc # "" THEN "operation_exception_" \o e.o.op
    ELSE IF ~QEnabled(S, V, e.o) THEN "harness_op_not_enabled"
    ELSE LET R == QApply(S, V, e.o)
             pv == ProjVerdict(R.S, e.proj)
         IN IF pv # "ok" THEN pv \o "_after_" \o e.o.op
            ELSE IF ToSet(e.proj.vis) # R.vis THEN "visited_flags_differ_after_" \o e.o.op
            ELSE IF RetVerdict(e.o, R, e.ret) # "ok" THEN RetVerdict(e.o, R, e.ret)
            ELSE IF PureVerdict(R.S, e.q) # "ok" THEN PureVerdict(R.S, e.q)
            ELSE Run(R.S, R.vis, ev, k + 1)

Verdict(c) == Run(EmptyStore, {}, c.events, 1)

CInit == i = 1 /\ QInit
CNext == /\ i <= Len(Cases)
         /\ PrintT(<<"VERDICT", Cases[i].id, Verdict(Cases[i])>>)
         /\ i' = i + 1 /\ UNCHANGED qvars
CSpec == CInit /\ [][CNext]_<<i, qvars>>
AllConsumed == TLCGet("stats").diameter - 1 = Len(Cases)
====
