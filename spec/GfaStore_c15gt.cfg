SPECIFICATION Spec
CONSTANTS Ids = {1, 2, 3, 4, 5, 6}  Ovs = {0}  TagVals <- NoTags  Signs <- Plus  Simple = TRUE  MaxLinks = 15  MaxDels = 0
INVARIANT DecompLaws
CHECK_DEADLOCK FALSE
