SPECIFICATION Spec
CONSTANTS R = 3  B = 1  C = 2  Cap = 2  MaxFaults = 0  FaultKinds = {}  Fixed = TRUE
INVARIANT TypeOK
INVARIANT NoCrash
INVARIANT OutPrefix
INVARIANT FinishedComplete
INVARIANT NoAbortWithoutFault
INVARIANT NoLiveWorkerAtExit
PROPERTY Terminates
CHECK_DEADLOCK FALSE
