SPECIFICATION Spec
CONSTANTS Ids = {1, 2, 3, 4, 5}  Ovs = {0}  TagVals <- NoTags  Signs <- Plus  Simple = TRUE  MaxLinks = 10  MaxDels = 0
INVARIANT DecompLaws
CHECK_DEADLOCK FALSE
