SPECIFICATION CSpec
CONSTANTS Walks = {}  MaxEdits = 0  MaxSlice = 0
POSTCONDITION AllConsumed
CHECK_DEADLOCK FALSE
