----------------------------- MODULE BubbleChain -----------------------------
(* rGFA chromosomes as chains of scaffold nodes and bubbles, what `gaftools order_gfa` must      *)
(* write on them (BO / NO), and a generator.                                                      *)
(*                                                                                                *)
(* The generator builds a chromosome left to right along the reference:                           *)
(*    Start(endkind) ; Unit(kind)* ; End(endkind)                                                 *)
(* Start/End add an end bubble (a reference tip node, or a dangling SNP bubble); Unit(kind) adds   *)
(* a bubble of that kind (edge = no inner node, snp, ins, multi-segment allele, inversion with     *)
(* flipped link orientations - at node level the inverted node is a cut vertex, hence a scaffold node -, nested) followed by the next scaffold node.  Reference nodes get     *)
(* increasing SO on the chromosome's contig and SR 0, alternative alleles get their own contig     *)
(* names and SR 1.  Node ids are "s<n>" with n counting up from 8, so that lexicographic order     *)
(* differs from numeric order (s10 < s9).                                                          *)
(* Independently of the construction, RGFA.Decomp (declarative articulation points and blocks)     *)
(* must reproduce exactly the constructed scaffold nodes and bubbles: invariant ConstructionOK.    *)
EXTENDS RGFA, TLC

CONSTANTS MaxChrom, MaxUnits, Kinds, EndKinds, Defects, MaxDefects,
          MinUnits,   \* a chromosome is closed only with at least this many units
          Pattern,    \* <<>>: any kind at any position; otherwise the k-th unit has kind Pattern[k] (long chains without blow-up)
          Wholes      \* whole chromosomes of a special shape: "single" (one segment, no link), "ring" (circular contig: a defect)
VARIABLES nodes,     \* set of [id, sn, so, ln, sr]
          links,     \* set of [a, ao, b, bo]   (GFA L lines)
          chroms,    \* sequence of [name, elems, bad]; elems = sequence of [k |-> "s" / "b", ns |-> node id set]
          cur,       \* the chromosome under construction: [name, elems, last, off, units, open, bad]
          cnt        \* node counter
bvars == <<nodes, links, chroms, cur, cnt>>

Id(n) == "s" \o ToString(n)
ChrName(k) == "chr" \o SubSeq("ABCDEFG", k, k)
RefNode(n, c, off) == [id |-> Id(n), sn |-> c, so |-> off, ln |-> 2, sr |-> 0]
AltNode(n, c) == [id |-> Id(n), sn |-> "alt" \o ToString(n), so |-> 0, ln |-> 2, sr |-> 1]
L(a, ao, b, bo) == [a |-> a, ao |-> ao, b |-> b, bo |-> bo]
Idle == [name |-> "", elems |-> <<>>, last |-> "", off |-> 0, units |-> 0, open |-> FALSE, bad |-> FALSE]

NoPattern == <<>>
LongPattern == <<"snp", "edge", "multi", "inv", "ins", "nested", "snp", "edge">>
BInit == nodes = {} /\ links = {} /\ chroms = <<>> /\ cur = Idle /\ cnt = 8

Start(ek) ==
  /\ ~cur.open /\ Len(chroms) < MaxChrom
  /\ LET c == ChrName(Len(chroms) + 1) IN
     IF ek = "tip"
     THEN /\ nodes' = nodes \cup {RefNode(cnt, c, 0), RefNode(cnt + 1, c, 2)}
          /\ links' = links \cup {L(Id(cnt), "+", Id(cnt + 1), "+")}
          /\ cur' = [name |-> c, elems |-> <<[k |-> "b", ns |-> {Id(cnt)}], [k |-> "s", ns |-> {Id(cnt + 1)}]>>,
                     last |-> Id(cnt + 1), off |-> 4, units |-> 0, open |-> TRUE, bad |-> FALSE]
          /\ cnt' = cnt + 2
     ELSE \* "endsnp": t0 -> x -> S, t0 -> y -> S
          /\ nodes' = nodes \cup {RefNode(cnt, c, 0), RefNode(cnt + 1, c, 2), AltNode(cnt + 2, c), RefNode(cnt + 3, c, 4)}
          /\ links' = links \cup {L(Id(cnt), "+", Id(cnt + 1), "+"), L(Id(cnt), "+", Id(cnt + 2), "+"),
                                  L(Id(cnt + 1), "+", Id(cnt + 3), "+"), L(Id(cnt + 2), "+", Id(cnt + 3), "+")}
          /\ cur' = [name |-> c, elems |-> <<[k |-> "b", ns |-> {Id(cnt), Id(cnt + 1), Id(cnt + 2)}], [k |-> "s", ns |-> {Id(cnt + 3)}]>>,
                     last |-> Id(cnt + 3), off |-> 6, units |-> 0, open |-> TRUE, bad |-> FALSE]
          /\ cnt' = cnt + 4
  /\ UNCHANGED chroms

(* a bubble of kind k between scaffold a (= cur.last) and a new scaffold node; returns the pieces *)
Bubble(k, a, n, c, off) ==
  CASE k = "edge" -> [inner |-> {}, new |-> {}, lk |-> {L(a, "+", Id(n), "+")}, used |-> 0, reflen |-> 0]
    [] k = "snp" -> [inner |-> {Id(n + 1), Id(n + 2)}, new |-> {RefNode(n + 1, c, off), AltNode(n + 2, c)}, used |-> 2, reflen |-> 2,
                     lk |-> {L(a, "+", Id(n + 1), "+"), L(a, "+", Id(n + 2), "+"), L(Id(n + 1), "+", Id(n), "+"), L(Id(n + 2), "+", Id(n), "+")}]
    [] k = "ins" -> [inner |-> {Id(n + 1)}, new |-> {AltNode(n + 1, c)}, used |-> 1, reflen |-> 0,
                     lk |-> {L(a, "+", Id(n), "+"), L(a, "+", Id(n + 1), "+"), L(Id(n + 1), "+", Id(n), "+")}]
    [] k = "multi" -> [inner |-> {Id(n + 1), Id(n + 2), Id(n + 3)}, new |-> {RefNode(n + 1, c, off), RefNode(n + 2, c, off + 2), AltNode(n + 3, c)},
                       used |-> 3, reflen |-> 4,
                       lk |-> {L(a, "+", Id(n + 1), "+"), L(Id(n + 1), "+", Id(n + 2), "+"), L(Id(n + 2), "+", Id(n), "+"),
                               L(a, "+", Id(n + 3), "+"), L(Id(n + 3), "+", Id(n), "+")}]
    [] k = "inv" -> [inner |-> {Id(n + 1)}, new |-> {RefNode(n + 1, c, off)}, used |-> 1, reflen |-> 2,
                     lk |-> {L(a, "+", Id(n + 1), "+"), L(Id(n + 1), "+", Id(n), "+"), L(a, "+", Id(n + 1), "-"), L(Id(n + 1), "-", Id(n), "+")}]
    [] k = "nested" -> [inner |-> {Id(n + 1), Id(n + 2), Id(n + 3), Id(n + 4), Id(n + 5)},
                        new |-> {RefNode(n + 1, c, off), RefNode(n + 2, c, off + 2), AltNode(n + 3, c), RefNode(n + 4, c, off + 4), AltNode(n + 5, c)},
                        used |-> 5, reflen |-> 6,
                        lk |-> {L(a, "+", Id(n + 1), "+"), L(Id(n + 1), "+", Id(n + 2), "+"), L(Id(n + 1), "+", Id(n + 3), "+"),
                                L(Id(n + 2), "+", Id(n + 4), "+"), L(Id(n + 3), "+", Id(n + 4), "+"), L(Id(n + 4), "+", Id(n), "+"),
                                L(a, "+", Id(n + 5), "+"), L(Id(n + 5), "+", Id(n), "+")}]

Unit(k) ==
  /\ cur.open /\ cur.units < MaxUnits
  /\ Pattern # <<>> => k = Pattern[cur.units + 1]
  /\ LET b == Bubble(k, cur.last, cnt, cur.name, cur.off)
         s == RefNode(cnt, cur.name, cur.off + b.reflen)
     IN /\ nodes' = nodes \cup b.new \cup {s}
        /\ links' = links \cup b.lk
        /\ cur' = [cur EXCEPT !.elems = @ \o (IF b.inner = {} THEN <<>>
                                                ELSE IF k = "inv" THEN <<[k |-> "s", ns |-> b.inner]>>   \* the inverted node is itself a cut vertex
                                                ELSE <<[k |-> "b", ns |-> b.inner]>>) \o <<[k |-> "s", ns |-> {s.id}]>>,
                              !.last = s.id, !.off = cur.off + b.reflen + 2, !.units = @ + 1]
        /\ cnt' = cnt + 1 + b.used
  /\ UNCHANGED chroms

End(ek) ==
  /\ cur.open /\ cur.units >= MinUnits
  /\ IF ek = "alttip"      \* the chain ends in a segment of ANOTHER contig (rank 1) whose offset there (0) is below every reference offset
     THEN /\ nodes' = nodes \cup {AltNode(cnt, cur.name)}
          /\ links' = links \cup {L(cur.last, "+", Id(cnt), "+")}
          /\ chroms' = Append(chroms, [name |-> cur.name, bad |-> cur.bad, elems |-> cur.elems \o <<[k |-> "b", ns |-> {Id(cnt)}]>>])
          /\ cnt' = cnt + 1
     ELSE IF ek = "tip"
     THEN /\ nodes' = nodes \cup {RefNode(cnt, cur.name, cur.off)}
          /\ links' = links \cup {L(cur.last, "+", Id(cnt), "+")}
          /\ chroms' = Append(chroms, [name |-> cur.name, bad |-> cur.bad, elems |-> cur.elems \o <<[k |-> "b", ns |-> {Id(cnt)}]>>])
          /\ cnt' = cnt + 1
     ELSE /\ nodes' = nodes \cup {RefNode(cnt, cur.name, cur.off), AltNode(cnt + 1, cur.name), RefNode(cnt + 2, cur.name, cur.off + 2)}
          /\ links' = links \cup {L(cur.last, "+", Id(cnt), "+"), L(cur.last, "+", Id(cnt + 1), "+"),
                                  L(Id(cnt), "+", Id(cnt + 2), "+"), L(Id(cnt + 1), "+", Id(cnt + 2), "+")}
          /\ chroms' = Append(chroms, [name |-> cur.name, bad |-> cur.bad, elems |-> cur.elems \o <<[k |-> "b", ns |-> {Id(cnt), Id(cnt + 1), Id(cnt + 2)}]>>])
          /\ cnt' = cnt + 3
  /\ cur' = Idle

(* defects that make the collapsed graph a non-chain (C18).  Applied to the chromosome under construction. *)
NBad == Cardinality({k \in 1..Len(chroms) : chroms[k].bad}) + (IF cur.bad THEN 1 ELSE 0)
(* whole chromosomes of a special shape *)
Whole(w) ==
  /\ ~cur.open /\ Len(chroms) < MaxChrom
  /\ LET c == ChrName(Len(chroms) + 1) IN
     IF w = "single"       \* a contig that is one segment without any link (chrM, an unplaced contig): a chain of one scaffold node
     THEN /\ nodes' = nodes \cup {RefNode(cnt, c, 0)} /\ links' = links
          /\ chroms' = Append(chroms, [name |-> c, bad |-> FALSE, elems |-> <<[k |-> "s", ns |-> {Id(cnt)}]>>])
          /\ cnt' = cnt + 1
     ELSE                  \* "ring": a circular contig stored with its closing link - no articulation point at all, not a chain
          /\ NBad < MaxDefects
          /\ nodes' = nodes \cup {RefNode(cnt, c, 0), RefNode(cnt + 1, c, 2), RefNode(cnt + 2, c, 4)}
          /\ links' = links \cup {L(Id(cnt), "+", Id(cnt + 1), "+"), L(Id(cnt + 1), "+", Id(cnt + 2), "+"), L(Id(cnt + 2), "+", Id(cnt), "+")}
          /\ chroms' = Append(chroms, [name |-> c, bad |-> TRUE, elems |-> <<[k |-> "s", ns |-> {Id(cnt), Id(cnt + 1), Id(cnt + 2)}]>>])
          /\ cnt' = cnt + 3
  /\ UNCHANGED cur
Defect(d) ==
  /\ cur.open /\ ~cur.bad /\ cur.units >= 1 /\ NBad < MaxDefects
  /\ CASE d = "branch" ->      \* a tip hanging off the current (middle) scaffold node: it gets degree 3 in the collapsed graph
            /\ nodes' = nodes \cup {AltNode(cnt, cur.name)}
            /\ links' = links \cup {L(cur.last, "+", Id(cnt), "+")}
            /\ cnt' = cnt + 1
       [] d = "branchalt" ->   \* an snp bubble whose alternative allele carries a tip: the cut vertex is a non-reference node
            /\ nodes' = nodes \cup {RefNode(cnt, cur.name, cur.off), AltNode(cnt + 1, cur.name), RefNode(cnt + 2, cur.name, cur.off + 2), AltNode(cnt + 3, cur.name)}
            /\ links' = links \cup {L(cur.last, "+", Id(cnt), "+"), L(cur.last, "+", Id(cnt + 1), "+"), L(Id(cnt), "+", Id(cnt + 2), "+"),
                                    L(Id(cnt + 1), "+", Id(cnt + 2), "+"), L(Id(cnt + 1), "+", Id(cnt + 3), "+")}
            /\ cnt' = cnt + 4
       [] d = "branchref" ->   \* an snp bubble whose REFERENCE allele carries a dead end: last =(m | x)= y - z with m - t; the only branching
                               \* is INSIDE the bubble (last, m, y are cut vertices on one cycle, x is not), every scaffold node has two neighbours
            /\ nodes' = nodes \cup {RefNode(cnt, cur.name, cur.off), AltNode(cnt + 1, cur.name), RefNode(cnt + 2, cur.name, cur.off + 2),
                                    AltNode(cnt + 3, cur.name), RefNode(cnt + 4, cur.name, cur.off + 4)}
            /\ links' = links \cup {L(cur.last, "+", Id(cnt), "+"), L(cur.last, "+", Id(cnt + 1), "+"), L(Id(cnt), "+", Id(cnt + 2), "+"),
                                    L(Id(cnt + 1), "+", Id(cnt + 2), "+"), L(Id(cnt), "+", Id(cnt + 3), "+"), L(Id(cnt + 2), "+", Id(cnt + 4), "+")}
            /\ cnt' = cnt + 5
       [] d = "join" ->        \* joined to (a piece of) another chromosome through a haplotype node: y - z2 with z1 - z2 - z3 on contig chrZ
            /\ nodes' = nodes \cup {RefNode(cnt, cur.name, cur.off), AltNode(cnt + 1, cur.name), RefNode(cnt + 2, cur.name, cur.off + 2),
                                    [id |-> Id(cnt + 3), sn |-> "chrZ", so |-> 0, ln |-> 2, sr |-> 0], [id |-> Id(cnt + 4), sn |-> "chrZ", so |-> 2, ln |-> 2, sr |-> 0],
                                    [id |-> Id(cnt + 5), sn |-> "chrZ", so |-> 4, ln |-> 2, sr |-> 0]}
            /\ links' = links \cup {L(cur.last, "+", Id(cnt), "+"), L(cur.last, "+", Id(cnt + 1), "+"), L(Id(cnt), "+", Id(cnt + 2), "+"),
                                    L(Id(cnt + 1), "+", Id(cnt + 2), "+"), L(Id(cnt + 1), "+", Id(cnt + 4), "+"),
                                    L(Id(cnt + 3), "+", Id(cnt + 4), "+"), L(Id(cnt + 4), "+", Id(cnt + 5), "+")}
            /\ cnt' = cnt + 6
       [] d = "cycle3" ->      \* three articulation points on one cycle without inner node: last, x, y pairwise linked, each with its own continuation
            /\ nodes' = nodes \cup {RefNode(cnt, cur.name, cur.off), RefNode(cnt + 1, cur.name, cur.off + 2), AltNode(cnt + 2, cur.name), AltNode(cnt + 3, cur.name)}
            /\ links' = links \cup {L(cur.last, "+", Id(cnt), "+"), L(Id(cnt), "+", Id(cnt + 1), "+"), L(cur.last, "+", Id(cnt + 1), "+"),
                                    L(Id(cnt), "+", Id(cnt + 2), "+"), L(Id(cnt + 1), "+", Id(cnt + 3), "+")}
            /\ cnt' = cnt + 4
       [] d = "cycle3in" ->    \* the same with an inner node on the cycle
            /\ nodes' = nodes \cup {RefNode(cnt, cur.name, cur.off), RefNode(cnt + 1, cur.name, cur.off + 2), AltNode(cnt + 2, cur.name),
                                    AltNode(cnt + 3, cur.name), AltNode(cnt + 4, cur.name)}
            /\ links' = links \cup {L(cur.last, "+", Id(cnt), "+"), L(Id(cnt), "+", Id(cnt + 4), "+"), L(Id(cnt + 4), "+", Id(cnt + 1), "+"),
                                    L(cur.last, "+", Id(cnt + 1), "+"), L(Id(cnt), "+", Id(cnt + 2), "+"), L(Id(cnt + 1), "+", Id(cnt + 3), "+")}
            /\ cnt' = cnt + 5
  /\ cur' = [cur EXCEPT !.bad = TRUE, !.last = IF d = "branchref" THEN Id(cnt + 4) ELSE @]    \* branchref: the chain goes on behind z
  /\ UNCHANGED chroms

BNext == (\E ek \in EndKinds \cap {"tip", "endsnp"} : Start(ek)) \/ (\E ek \in EndKinds : End(ek)) \/ (\E k \in Kinds : Unit(k))
         \/ (\E d \in Defects : Defect(d)) \/ (\E w \in Wholes : Whole(w))
BSpec == BInit /\ [][BNext]_bvars

-----------------------------------------------------------------------------
(* the graph as RGFA links, and the declarative decomposition of a chromosome *)
Sign(o) == o
RLinks == {MkLink(l.a, l.ao, l.b, l.bo, 0) : l \in links}
NodesOf(ch) == UNION {ch.elems[k].ns : k \in 1..Len(ch.elems)}
Scaffolds(ch) == UNION {ch.elems[k].ns : k \in {j \in 1..Len(ch.elems) : ch.elems[j].k = "s"}}
BubblesOf(ch) == {ch.elems[k].ns : k \in {j \in 1..Len(ch.elems) : ch.elems[j].k = "b"}}
ConstructionOK ==
  \A k \in 1..Len(chroms) : ~chroms[k].bad =>
     LET ch == chroms[k]
         d == Decomp(NodesOf(ch), Edges(RLinks))
     IN IF Cardinality(NodesOf(ch)) = 1 THEN ch.elems = <<[k |-> "s", ns |-> NodesOf(ch)]>>      \* the rule for a one-segment contig
        ELSE
        /\ d.artic = Scaffolds(ch)                                   \* scaffold nodes are exactly the articulation points
        /\ {B \ d.artic : B \in d.blocks} \ {{}} = BubblesOf(ch)      \* bubbles are the blocks minus articulation points
        /\ NodesOf(ch) \in CompsOf({n.id : n \in nodes}, Edges(RLinks))  \* each chromosome is one connected component

(* lexicographic order on ids (what Python's sorted() does on these ASCII strings) *)
Alphabet == "0123456789ABCDEFGHIJKLMNOPQRSTUVWXYZabcdefghijklmnopqrstuvwxyz"      \* code-point order
Ord(c) == CHOOSE k \in 1..Len(Alphabet) : SubSeq(Alphabet, k, k) = c
RECURSIVE LexLess(_, _)
LexLess(a, b) == IF Len(a) = 0 THEN Len(b) > 0
                 ELSE IF Len(b) = 0 THEN FALSE
                 ELSE IF SubSeq(a, 1, 1) # SubSeq(b, 1, 1) THEN Ord(SubSeq(a, 1, 1)) < Ord(SubSeq(b, 1, 1))
                 ELSE LexLess(SubSeq(a, 2, Len(a)), SubSeq(b, 2, Len(b)))
LexRank(x, S) == 1 + Cardinality({y \in S : LexLess(y, x)})

(* C06 on one chromosome: tag |-> <<BO, NO>> for every node of the chromosome *)
ChainTagsOK(ch, tag) ==
  LET E == ch.elems
      bo(k) == tag[CHOOSE n \in E[k].ns : TRUE][1]
  IN /\ \A k \in 1..Len(E) : \A n \in E[k].ns : tag[n][1] = bo(k)                    \* one BO per chain element
     /\ \A k \in 1..(Len(E) - 1) : bo(k) < bo(k + 1)                                  \* strictly increasing along the reference
     /\ \A k \in 1..Len(E) : E[k].k = "s" => \A n \in E[k].ns : tag[n][2] = 0          \* scaffold nodes: NO = 0
     /\ \A k \in 1..Len(E) : E[k].k = "b" => \A n \in E[k].ns : tag[n][2] = LexRank(n, E[k].ns)   \* inner nodes: 1..M lexicographic
ChainTagsClause(ch, tag) ==
  LET E == ch.elems
      bo(k) == tag[CHOOSE n \in E[k].ns : TRUE][1]
  IN IF \E k \in 1..Len(E) : \E n \in E[k].ns : tag[n][1] # bo(k) THEN "bubble_nodes_do_not_share_bo"
     ELSE IF \E k \in 1..Len(E) : E[k].k = "s" /\ \E n \in E[k].ns : tag[n][2] # 0 THEN "scaffold_no_not_zero"
     ELSE IF \E k \in 1..Len(E) : E[k].k = "b" /\ \E n \in E[k].ns : tag[n][2] # LexRank(n, E[k].ns) THEN "inner_nodes_not_numbered_lexicographically"
     ELSE IF \E k \in 1..(Len(E) - 1) : bo(k) >= bo(k + 1) THEN "bo_not_strictly_increasing_along_reference"
     ELSE "ok"
LexSanity == LexLess("s10", "s9") /\ ~LexLess("s9", "s10") /\ LexLess("s1", "s10") /\ ~LexLess("s2", "s2")
=============================================================================
