SPECIFICATION BSpec
CONSTANTS MaxChrom = 1  MaxUnits = 2  Kinds = {"edge", "snp", "ins", "multi", "inv", "nested"}  EndKinds = {"tip", "endsnp"}  Defects = {}  MaxDefects = 0  MinUnits = 0  Pattern <- NoPattern  Wholes = {}
INVARIANT ConstructionOK
INVARIANT LexSanity
CHECK_DEADLOCK FALSE
