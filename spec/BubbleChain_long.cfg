SPECIFICATION BSpec
CONSTANTS MaxChrom = 2  MaxUnits = 6  Kinds = {"edge", "snp", "ins", "multi", "inv", "nested"}  EndKinds = {"tip", "endsnp"}  Defects = {}  MaxDefects = 0  MinUnits = 6  Pattern <- LongPattern  Wholes = {}
INVARIANT LexSanity
CHECK_DEADLOCK FALSE
