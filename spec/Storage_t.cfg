SPECIFICATION SSpec
CONSTANTS Lens = {0, 1, 3}  MaxLines = 5  Payloads = {1, 2, 3, 4, 5, 7}
INVARIANT RoundTrip
INVARIANT DistinctOffsets
CHECK_DEADLOCK FALSE
