SPECIFICATION BSpec
CONSTANTS MaxChrom = 2  MaxUnits = 2  Kinds = {"edge", "snp"}  EndKinds = {"tip", "alttip"}  Defects = {}  MaxDefects = 0  MinUnits = 0  Pattern <- NoPattern  Wholes = {"single"}
INVARIANT ConstructionOK
INVARIANT LexSanity
CHECK_DEADLOCK FALSE
