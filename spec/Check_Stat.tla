---- MODULE Check_Stat ----
(* Code -> spec for C19: one case = one `gaftools stat [--cigar]` run; c.file are the records,   *)
(* c.o the figures parsed from the printed report (averages in thousandths).                     *)
EXTENDS Stat, IOUtils
Cases == ndJsonDeserialize(IOEnv.CASES)
VARIABLE i
Verdict(c) ==
  LET R == Report(c.file) o == c.o IN
  IF c.status # "ok" THEN "stat_failed_" \o c.status
  ELSE IF o.n_reports # 1 THEN "not_exactly_one_report_in_the_output"
  ELSE IF o.foreign_lines # 0 THEN "foreign_lines_in_the_report"
  ELSE IF o.has_cigar_section # c.cigar THEN "cigar_section_present_iff_requested"
  ELSE IF o.total # R.total THEN "total_wrong"
  ELSE IF o.primary # R.primary \/ o.secondary # R.secondary THEN "primary_secondary_split_wrong"
  ELSE IF o.total # o.primary + o.secondary THEN "total_is_not_primary_plus_secondary"
  ELSE IF o.reads # R.reads THEN "reads_wrong"
  ELSE IF o.bases # R.bases THEN "aligned_bases_wrong"
  ELSE IF R.reads > 0 /\ ~AvgOK(o.ident_milli, R.ident) THEN "best_identity_wrong"
  ELSE IF R.reads > 0 /\ ~AvgOK(o.ratio_milli, R.ratio) THEN "best_map_ratio_wrong"
  ELSE IF c.cigar /\ (o.del # R.del \/ o.ins # R.ins \/ o.sub # R.sub \/ o.mat # R.mat) THEN "cigar_run_counts_wrong"
  ELSE IF c.cigar /\ (o.bigdel # R.bigdel \/ o.bigins # R.bigins \/ o.bigsub # R.bigsub \/ o.bigmat # R.bigmat) THEN "cigar_large_run_counts_wrong"
  ELSE IF c.cigar /\ o.perfect # R.perfect THEN "perfect_alignment_count_wrong"
  ELSE "ok"
CInit == i = 1 /\ TInit
CNext == /\ i <= Len(Cases)
         /\ PrintT(<<"VERDICT", Cases[i].id, Verdict(Cases[i])>>)
         /\ i' = i + 1 /\ UNCHANGED tvars
CSpec == CInit /\ [][CNext]_<<i, tvars>>
AllConsumed == TLCGet("stats").diameter - 1 = Len(Cases)
====
