SPECIFICATION TSpec
CONSTANT MaxLen = 3
INVARIANT ConsumeMatchesReport
INVARIANT PermutationInvariant
CHECK_DEADLOCK FALSE
