-------------------------------- MODULE Phase --------------------------------
(* `gaftools phase`: every record of the GAF is written back unchanged with two more fields,   *)
(* ps:Z (contig-phaseset) and ht:Z (haplotype), taken from the haplotag TSV or "none".          *)
EXTENDS Integers, Sequences, FiniteSets, TLC, Json
Data == JsonDeserialize("data/phase_pool.json")
Recs == Data.recs          \* [name, strand, path, opt: <<<<tag, type, value>>, ...>>]
Tsvs == Data.tsvs          \* sequences of rows <<read, haplotype, phaseset, contig>>

(* what the TSV says about a read: one admissible <<ps, ht>> pair per row, "none" if unphased or absent *)
RowAnnot(row) == IF row[2] = "none" THEN <<"none", "none">> ELSE <<row[4] \o "-" \o row[3], row[2]>>
Allowed(tsv, name) == LET rows == {k \in 1..Len(tsv) : tsv[k][1] = name}
                      IN IF rows = {} THEN {<<"none", "none">>} ELSE {RowAnnot(tsv[k]) : k \in rows}

(* tag grammar of an optional field split at its first two colons *)
Letters == {"a","b","c","d","e","f","g","h","i","j","k","l","m","n","o","p","q","r","s","t","u","v","w","x","y","z",
            "A","B","C","D","E","F","G","H","I","J","K","L","M","N","O","P","Q","R","S","T","U","V","W","X","Y","Z"}
Digits == {"0","1","2","3","4","5","6","7","8","9"}
FieldShapeOK(f) == /\ Len(f[1]) = 2 /\ SubSeq(f[1], 1, 1) \in Letters /\ SubSeq(f[1], 2, 2) \in Letters \cup Digits
                   /\ f[2] \in {"A", "i", "f", "Z", "H", "B"}
                   /\ (f[2] \in {"A", "i", "f"} => Len(f[3]) > 0)
Without(s, tags) == SelectSeq(s, LAMBDA f : ~(<<f[1], f[2]>> \in tags))

(* the loop of add_phase_info as a machine: LoadRow* ; Annotate* (the code keeps the first row of a read) *)
CONSTANT MaxFile
VARIABLES tsv, input, loaded, table, nout, annot
pvars == <<tsv, input, loaded, table, nout, annot>>
PInit == tsv \in 1..Len(Tsvs) /\ input = <<>> /\ loaded = 0 /\ table = <<>> /\ nout = 0 /\ annot = <<>>
AddRec(r) == loaded = 0 /\ Len(input) < MaxFile /\ input' = Append(input, r) /\ UNCHANGED <<tsv, loaded, table, nout, annot>>
LoadRow == /\ input # <<>> /\ loaded < Len(Tsvs[tsv])
           /\ LET row == Tsvs[tsv][loaded + 1] IN
                table' = IF row[1] \in DOMAIN table THEN table ELSE (row[1] :> RowAnnot(row)) @@ table
           /\ loaded' = loaded + 1 /\ UNCHANGED <<tsv, input, nout, annot>>
Annotate == /\ input # <<>> /\ loaded = Len(Tsvs[tsv]) /\ nout < Len(input)
            /\ LET n == Recs[input[nout + 1]].name IN
                 annot' = Append(annot, IF n \in DOMAIN table THEN table[n] ELSE <<"none", "none">>)
            /\ nout' = nout + 1 /\ UNCHANGED <<tsv, input, loaded, table>>
PNext == (\E r \in 1..Len(Recs) : AddRec(r)) \/ LoadRow \/ Annotate
PSpec == PInit /\ [][PNext]_pvars
AnnotationsAllowed == \A k \in 1..Len(annot) : annot[k] \in Allowed(Tsvs[tsv], Recs[input[k]].name)
=============================================================================
