SPECIFICATION BSpec
CONSTANTS MaxChrom = 3  MaxUnits = 1  Kinds = {"snp", "inv"}  EndKinds = {"tip"}  Defects = {"branch", "cycle3"}  MaxDefects = 2  MinUnits = 0  Pattern <- NoPattern  Wholes = {"single", "ring"}
INVARIANT RunSatisfiesC06
INVARIANT SkipIsolatedC18
CHECK_DEADLOCK FALSE
