------------------------------- MODULE Realign -------------------------------
(* The collector of `gaftools realign` (gaftools/cli/realign.py, realign_gaf) with its      *)
(* worker processes and the multiprocessing queue between them.                              *)
(*                                                                                           *)
(* User-visible constants: R records, batch size B (hooked literal), --cores C.  The group   *)
(* structure is derived as the code derives it: batches are chunks of B records, a group is  *)
(* run as soon as C batches have accumulated, the remaining batches form the last group.     *)
(*                                                                                           *)
(* mp.Queue is modelled as implemented: put() appends to a per-process buffer (WPut,         *)
(* WSentinel); a feeder moves items to the shared pipe while there is room (WFlush, Cap); a  *)
(* process cannot exit before its buffer is flushed (WExit); a killed process loses its      *)
(* buffer (WKill); a process whose target raises still flushes, then exits non-zero          *)
(* (WCrash, WFailExit).  get(timeout) is two actions: PGetItem (pipe non-empty) and PTimeout *)
(* (pipe empty).  The parent-local bookkeeping after an item is obtained (sentinel count,    *)
(* priority queue, loop test) touches no shared state and is folded into the step that       *)
(* obtains the item (operator Handle).  `last` is the code's variable out_string_obj,        *)
(* including its staleness across loop iterations and groups.                                *)
(*                                                                                           *)
(* Written functionally (Enabled / Step on a state record) so that the same definitions      *)
(* drive TLC's exploration and validate traces recorded from the implementation.             *)
EXTENDS Integers, Sequences, FiniteSets, TLC

CONSTANTS R, B, C,      \* records, batch size, cores
          Cap,          \* pipe capacity (items)
          MaxFaults,    \* number of worker faults explored
          FaultKinds,   \* subset of {"kill", "crash"}
          Fixed         \* TRUE: after "nobody alive, all exit codes 0" poll the queue again
                        \* FALSE: named deviation D11 - fall through with the stale item

Unset == 0 - 1
Min(a, b) == IF a < b THEN a ELSE b
NB == (R + B - 1) \div B                       \* number of batches
NG == (NB + C - 1) \div C                      \* number of groups
WOf(g) == Min(g * C, NB) - (g - 1) * C         \* workers (= batches) in group g
BatchOf(g, w) == (g - 1) * C + w
KOf(b) == Min(b * B, R) - (b - 1) * B          \* records in batch b
Rec(b, k) == (b - 1) * B + k                   \* priority (1-based; the code counts from 0); 0 = sentinel
Workers == 1..C
Ident(n) == [i \in 1..n |-> i]

VARIABLES grp, wpc, wnext, buf, pipe, ppc, last, nsent, pq, out, faults
vars == <<grp, wpc, wnext, buf, pipe, ppc, last, nsent, pq, out, faults>>
St == [grp |-> grp, wpc |-> wpc, wnext |-> wnext, buf |-> buf, pipe |-> pipe, ppc |-> ppc,
       last |-> last, nsent |-> nsent, pq |-> pq, out |-> out, faults |-> faults]

InitState == [grp |-> 1, wpc |-> [w \in Workers |-> "new"], wnext |-> [w \in Workers |-> 0],
              buf |-> [w \in Workers |-> <<>>], pipe |-> <<>>, ppc |-> "start", last |-> Unset,
              nsent |-> 0, pq |-> <<>>, out |-> <<>>, faults |-> 0]

AliveIn(S, w) == S.wpc[w] \in {"run", "done", "failing"}
ExitBad(S, w) == S.wpc[w] # "exited"           \* p.exitcode != 0 (None while running, -9, 1)

(* sorted insertion: queue.PriorityQueue on PriorityAlignment(priority, ...) *)
RECURSIVE Insert(_, _)
Insert(q, x) == IF q = <<>> THEN <<x>>
                ELSE IF x < Head(q) THEN <<x>> \o q ELSE <<Head(q)>> \o Insert(Tail(q), x)

(* the parent's bookkeeping for one obtained item, then the loop test *)
Handle(S, item) ==
  LET ns == IF item = 0 THEN S.nsent + 1 ELSE S.nsent
      q  == IF item = 0 THEN S.pq ELSE Insert(S.pq, item)
  IN [S EXCEPT !.nsent = ns, !.pq = q, !.ppc = IF ns # WOf(S.grp) THEN "get" ELSE "join"]

Enabled(S, a) ==
  CASE a.t = "WPut"      -> S.wpc[a.w] = "run" /\ S.wnext[a.w] < KOf(BatchOf(S.grp, a.w))
    [] a.t = "WSentinel" -> S.wpc[a.w] = "run" /\ S.wnext[a.w] = KOf(BatchOf(S.grp, a.w))
    [] a.t = "WFlush"    -> AliveIn(S, a.w) /\ S.buf[a.w] # <<>> /\ Len(S.pipe) < Cap
    [] a.t = "WExit"     -> S.wpc[a.w] = "done" /\ S.buf[a.w] = <<>>
    [] a.t = "WKill"     -> AliveIn(S, a.w) /\ S.faults < MaxFaults /\ "kill" \in FaultKinds
    [] a.t = "WCrash"    -> S.wpc[a.w] = "run" /\ S.faults < MaxFaults /\ "crash" \in FaultKinds
    [] a.t = "WFailExit" -> S.wpc[a.w] = "failing" /\ S.buf[a.w] = <<>>
    [] a.t = "PStart"    -> S.ppc = "start"
    [] a.t = "PGetItem"  -> S.ppc = "get" /\ S.pipe # <<>>
    [] a.t = "PTimeout"  -> S.ppc = "get" /\ S.pipe = <<>>
    [] a.t = "PAlive"    -> S.ppc = "alive"
    [] a.t = "PExitChk"  -> S.ppc = "exitchk"
    [] a.t = "PJoin"     -> S.ppc = "join" /\ \A w \in Workers : ~AliveIn(S, w)
    [] a.t = "PDrain"    -> S.ppc = "drain"
    [] OTHER -> FALSE

Step(S, a) ==
  CASE a.t = "WPut" ->
         [S EXCEPT !.buf[a.w] = Append(@, Rec(BatchOf(S.grp, a.w), S.wnext[a.w] + 1)),
                   !.wnext[a.w] = @ + 1]
    [] a.t = "WSentinel" -> [S EXCEPT !.buf[a.w] = Append(@, 0), !.wpc[a.w] = "done"]
    [] a.t = "WFlush"    -> [S EXCEPT !.pipe = Append(@, Head(S.buf[a.w])), !.buf[a.w] = Tail(@)]
    [] a.t = "WExit"     -> [S EXCEPT !.wpc[a.w] = "exited"]
    [] a.t = "WKill"     -> [S EXCEPT !.wpc[a.w] = IF S.wpc[a.w] = "done" /\ S.buf[a.w] = <<>> THEN "dead" ELSE "lost",
                                      !.buf[a.w] = <<>>, !.faults = @ + 1]
    [] a.t = "WCrash"    -> [S EXCEPT !.wpc[a.w] = "failing", !.faults = @ + 1]
    [] a.t = "WFailExit" -> [S EXCEPT !.wpc[a.w] = "lost"]      \* a target raises before it has sent its sentinel
    [] a.t = "PStart"    ->
         [S EXCEPT !.wpc = [w \in Workers |-> IF w <= WOf(S.grp) THEN "run" ELSE "none"],
                   !.nsent = 0, !.pq = <<>>, !.ppc = "get"]
    [] a.t = "PGetItem"  -> Handle([S EXCEPT !.last = Head(S.pipe), !.pipe = Tail(@)], Head(S.pipe))
    [] a.t = "PTimeout"  -> [S EXCEPT !.ppc = "alive"]
    [] a.t = "PAlive"    -> [S EXCEPT !.ppc = IF \E w \in Workers : AliveIn(S, w) THEN "get" ELSE "exitchk"]
    [] a.t = "PExitChk"  ->
         IF \E w \in 1..WOf(S.grp) : ExitBad(S, w) THEN [S EXCEPT !.ppc = "aborted"]
         ELSE IF Fixed THEN [S EXCEPT !.ppc = "get"]
         ELSE IF S.last = Unset THEN [S EXCEPT !.ppc = "crashed"]      \* UnboundLocalError
         ELSE Handle(S, S.last)                                        \* stale item handled again
    [] a.t = "PJoin"     -> [S EXCEPT !.ppc = "drain"]
    [] a.t = "PDrain"    ->
         IF S.grp < NG
         THEN [S EXCEPT !.out = @ \o S.pq, !.pq = <<>>, !.grp = @ + 1, !.ppc = "start", !.pipe = <<>>,
                        !.wpc = [w \in Workers |-> "new"], !.wnext = [w \in Workers |-> 0],
                        !.buf = [w \in Workers |-> <<>>]]
         ELSE [S EXCEPT !.out = @ \o S.pq, !.pq = <<>>, !.ppc = "finished"]

Do(a) == /\ Enabled(St, a)
         /\ LET T == Step(St, a) IN
              /\ grp' = T.grp /\ wpc' = T.wpc /\ wnext' = T.wnext /\ buf' = T.buf /\ pipe' = T.pipe
              /\ ppc' = T.ppc /\ last' = T.last /\ nsent' = T.nsent /\ pq' = T.pq /\ out' = T.out
              /\ faults' = T.faults

WPut(w)      == Do([t |-> "WPut", w |-> w])
WSentinel(w) == Do([t |-> "WSentinel", w |-> w])
WFlush(w)    == Do([t |-> "WFlush", w |-> w])
WExit(w)     == Do([t |-> "WExit", w |-> w])
WKill(w)     == Do([t |-> "WKill", w |-> w])
WCrash(w)    == Do([t |-> "WCrash", w |-> w])
WFailExit(w) == Do([t |-> "WFailExit", w |-> w])
PStart   == Do([t |-> "PStart"])
PGetItem == Do([t |-> "PGetItem"])
PTimeout == Do([t |-> "PTimeout"])
PAlive   == Do([t |-> "PAlive"])
PExitChk == Do([t |-> "PExitChk"])
PJoin    == Do([t |-> "PJoin"])
PDrain   == Do([t |-> "PDrain"])

Init == /\ grp = 1 /\ wpc = InitState.wpc /\ wnext = InitState.wnext /\ buf = InitState.buf
        /\ pipe = <<>> /\ ppc = "start" /\ last = Unset /\ nsent = 0 /\ pq = <<>> /\ out = <<>>
        /\ faults = 0
WorkerStep(w) == WPut(w) \/ WSentinel(w) \/ WFlush(w) \/ WExit(w) \/ WFailExit(w)
Fault(w) == WKill(w) \/ WCrash(w)
ParentStep == PStart \/ PGetItem \/ PTimeout \/ PAlive \/ PExitChk \/ PJoin \/ PDrain
Next == (\E w \in Workers : WorkerStep(w) \/ Fault(w)) \/ ParentStep
Fair == /\ \A w \in Workers : WF_vars(WPut(w)) /\ WF_vars(WSentinel(w)) /\ WF_vars(WFlush(w))
                              /\ WF_vars(WExit(w)) /\ WF_vars(WFailExit(w))
        /\ WF_vars(ParentStep)
Spec == Init /\ [][Next]_vars /\ Fair

----------------------------------------------------------------------------
(* C11 *)
NoCrash          == ppc # "crashed"
OutPrefix        == \E n \in 0..R : out = Ident(n)           \* never dropped, duplicated, reordered
FinishedComplete == ppc = "finished" => out = Ident(R)       \* success => every record, once, in order
NoAbortWithoutFault == ppc = "aborted" => faults > 0
Terminal == ppc \in {"finished", "aborted", "crashed"}
Terminates == <>Terminal                                      \* never hangs (under fairness)
(* C13: a worker that died before its sentinel reached the pipe can never be counted *)
(* "lost" = the worker ended abnormally IN its batch: before its end-of-batch marker had left its buffer (before, between *)
(* or after its results); "dead" = killed after it had handed over everything.  A group with a lost worker is never        *)
(* collected, so the command can only end by aborting - whether or not all RESULTS had already arrived.                     *)
EarlyDeathNeverSucceeds == \A w \in Workers : wpc[w] = "lost" => ppc \notin {"join", "drain", "finished"}
NeverSuccessAfterLoss == [][ppc' = "finished" => out' = Ident(R)]_vars
(* When the parent's main thread ends, multiprocessing's exit handler JOINS every live non-daemonic   *)
(* child, and nobody reads the pipe any more: a child that still has more to send than the pipe holds *)
(* never exits and the command hangs at exit.  The design is safe because it only ever ends with no   *)
(* worker alive (the harness applies the same rule to the implementation: sched.Sched.exit_join).     *)
NoLiveWorkerAtExit == Terminal => \A w \in Workers : ~AliveIn(St, w)
TypeOK == /\ grp \in 1..NG /\ nsent \in 0..(C + R + 2) /\ faults \in 0..MaxFaults
          /\ ppc \in {"start", "get", "alive", "exitchk", "join", "drain", "finished", "aborted", "crashed"}
=============================================================================
