-------------------------------- MODULE Align --------------------------------
(* Pairwise global alignment as an automaton over (i, j) = (read bases consumed, path bases      *)
(* consumed):  '=' consumes one base of each and is enabled iff they are equal, 'X' iff they are  *)
(* unequal, 'I' consumes a read base, 'D' a path base.  A CIGAR is valid iff its run-length       *)
(* expansion is a behaviour of the automaton from (0,0) to (|read|, |path|).  The same automaton  *)
(* is used generatively: from a path slice (spelled along a walk with RGFA.Spell) it derives      *)
(* reads by substitutions, insertions and deletions together with a valid CIGAR.                  *)
EXTENDS RGFA, TLC

Ch(s, k) == SubSeq(s, k, k)
RECURSIVE Expand(_)
Expand(cg) == IF cg = <<>> THEN <<>> ELSE [k \in 1..cg[1][1] |-> cg[1][2]] \o Expand(Tail(cg))
(* fold the automaton over the expanded ops; returns the final (i, j) or <<-1, k>> at the first bad column k *)
Walk(read, path, ops) ==
  LET RECURSIVE W(_, _, _)
      W(k, i, j) ==
        IF k > Len(ops) THEN <<i, j, 0>>
        ELSE LET o == ops[k] IN
          IF o = "=" THEN (IF i < Len(read) /\ j < Len(path) /\ Ch(read, i + 1) = Ch(path, j + 1) THEN W(k + 1, i + 1, j + 1) ELSE <<i, j, k>>)
          ELSE IF o = "X" THEN (IF i < Len(read) /\ j < Len(path) /\ Ch(read, i + 1) # Ch(path, j + 1) THEN W(k + 1, i + 1, j + 1) ELSE <<i, j, k>>)
          ELSE IF o = "I" THEN (IF i < Len(read) THEN W(k + 1, i + 1, j) ELSE <<i, j, k>>)
          ELSE IF o = "D" THEN (IF j < Len(path) THEN W(k + 1, i, j + 1) ELSE <<i, j, k>>)
          ELSE <<i, j, k>>
  IN W(1, 0, 0)
ValidAln(read, path, cg) == LET r == Walk(read, path, Expand(cg)) IN r[3] = 0 /\ r[1] = Len(read) /\ r[2] = Len(path)
Count(ops, o) == Cardinality({k \in 1..Len(ops) : ops[k] = o})
(* gap-affine cost (mismatch 4, gap opening 6, gap extension 2), on the alignment, not on its encoding *)
Cost(ops) == 4 * Count(ops, "X") + 2 * (Count(ops, "I") + Count(ops, "D"))
             + 6 * Cardinality({k \in 1..Len(ops) : ops[k] \in {"I", "D"} /\ (k = 1 \/ ops[k - 1] # ops[k])})

-----------------------------------------------------------------------------
(* generator *)
CONSTANTS Walks,      \* sequences of steps <<o, id>> (walks of the fixed graph below)
          MaxEdits, MaxSlice
NodeSeq == [s1 |-> "ACG", s2 |-> "TTA", s3 |-> "GC"]
VARIABLES walk, ps, pe, j, read, ops, ned, phase
avars == <<walk, ps, pe, j, read, ops, ned, phase>>
Slice == SubSeq(Spell(NodeSeq, walk), ps + 1, pe)
AInit == walk = <<>> /\ ps = 0 /\ pe = 0 /\ j = 0 /\ read = "" /\ ops = <<>> /\ ned = 0 /\ phase = "choose"
Choose(w, a, b) == /\ phase = "choose" /\ 0 <= a /\ a < b /\ b <= Len(Spell(NodeSeq, w)) /\ b - a <= MaxSlice
                   /\ walk' = w /\ ps' = a /\ pe' = b /\ phase' = "edit" /\ UNCHANGED <<j, read, ops, ned>>
Other(b) == CASE b = "A" -> "C" [] b = "C" -> "G" [] b = "G" -> "T" [] OTHER -> "A"
Match == /\ phase = "edit" /\ j < pe - ps
         /\ read' = read \o Ch(Slice, j + 1) /\ ops' = Append(ops, "=") /\ j' = j + 1 /\ UNCHANGED <<walk, ps, pe, ned, phase>>
Sub   == /\ phase = "edit" /\ j < pe - ps /\ ned < MaxEdits
         /\ read' = read \o Other(Ch(Slice, j + 1)) /\ ops' = Append(ops, "X") /\ j' = j + 1 /\ ned' = ned + 1
         /\ UNCHANGED <<walk, ps, pe, phase>>
Ins(b) == /\ phase = "edit" /\ ned < MaxEdits
          /\ read' = read \o b /\ ops' = Append(ops, "I") /\ ned' = ned + 1 /\ UNCHANGED <<walk, ps, pe, j, phase>>
Del   == /\ phase = "edit" /\ j < pe - ps /\ ned < MaxEdits
         /\ ops' = Append(ops, "D") /\ j' = j + 1 /\ ned' = ned + 1 /\ UNCHANGED <<walk, ps, pe, read, phase>>
Done  == /\ phase = "edit" /\ j = pe - ps /\ read # "" /\ phase' = "done" /\ UNCHANGED <<walk, ps, pe, j, read, ops, ned>>
ANext == (\E w \in Walks, a \in 0..8, b \in 1..9 : Choose(w, a, b)) \/ Match \/ Sub \/ Del \/ Done \/ (\E b \in {"A", "T"} : Ins(b))
ASpec == AInit /\ [][ANext]_avars
RECURSIVE Rle(_)
Rle(o) == IF o = <<>> THEN <<>>
          ELSE LET n == CHOOSE n \in 1..Len(o) : (\A k \in 1..n : o[k] = o[1]) /\ (n = Len(o) \/ o[n + 1] # o[1])
               IN <<<<n, o[1]>>>> \o Rle(SubSeq(o, n + 1, Len(o)))
(* every generated (read, ops) is a valid alignment of the slice, and run-length encoding is faithful *)
GeneratedValid == phase = "done" => ValidAln(read, Slice, Rle(ops)) /\ Expand(Rle(ops)) = ops
=============================================================================
