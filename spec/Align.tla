-------------------------------- MODULE Align --------------------------------
(* Pairwise global alignment as an automaton over (i, j) = (read bases consumed, path bases      *)
(* consumed):  '=' consumes one base of each and is enabled iff they are equal, 'X' iff they are  *)
(* unequal, 'I' consumes a read base, 'D' a path base.  A CIGAR is valid iff its run-length       *)
(* expansion is a behaviour of the automaton from (0,0) to (|read|, |path|).  The same automaton  *)
(* is used generatively: from a path slice (spelled along a walk with RGFA.Spell) it derives      *)
(* reads by substitutions, insertions and deletions together with a valid CIGAR.                  *)
EXTENDS RGFA, TLC

Ch(s, k) == SubSeq(s, k, k)
RECURSIVE Expand(_)
Expand(cg) == IF cg = <<>> THEN <<>> ELSE [k \in 1..cg[1][1] |-> cg[1][2]] \o Expand(Tail(cg))
(* fold the automaton over the expanded ops; returns the final (i, j) or <<-1, k>> at the first bad column k *)
Walk(read, path, ops) ==
  LET RECURSIVE W(_, _, _)
      W(k, i, j) ==
        IF k > Len(ops) THEN <<i, j, 0>>
        ELSE LET o == ops[k] IN
          IF o = "=" THEN (IF i < Len(read) /\ j < Len(path) /\ Ch(read, i + 1) = Ch(path, j + 1) THEN W(k + 1, i + 1, j + 1) ELSE <<i, j, k>>)
          ELSE IF o = "X" THEN (IF i < Len(read) /\ j < Len(path) /\ Ch(read, i + 1) # Ch(path, j + 1) THEN W(k + 1, i + 1, j + 1) ELSE <<i, j, k>>)
          ELSE IF o = "I" THEN (IF i < Len(read) THEN W(k + 1, i + 1, j) ELSE <<i, j, k>>)
          ELSE IF o = "D" THEN (IF j < Len(path) THEN W(k + 1, i, j + 1) ELSE <<i, j, k>>)
          ELSE <<i, j, k>>
  IN W(1, 0, 0)
ValidAln(read, path, cg) == LET r == Walk(read, path, Expand(cg)) IN r[3] = 0 /\ r[1] = Len(read) /\ r[2] = Len(path)
Count(ops, o) == Cardinality({k \in 1..Len(ops) : ops[k] = o})
(* gap-affine cost (mismatch 4, gap opening 6, gap extension 2), on the alignment, not on its encoding *)
Cost(ops) == 4 * Count(ops, "X") + 2 * (Count(ops, "I") + Count(ops, "D"))
             + 6 * Cardinality({k \in 1..Len(ops) : ops[k] \in {"I", "D"} /\ (k = 1 \/ ops[k - 1] # ops[k])})

(* The same automaton run-wise, for CIGARs with very long runs (a 60,000-base alignment is one    *)
(* step per run, not per base): a run of n '=' is enabled iff the next n bases are equal as        *)
(* strings, a run of n 'X' iff they differ position by position.  Returns <<i, j, bad run>>.       *)
RunWalk(read, path, cg) ==
  LET RECURSIVE W(_, _, _)
      W(k, i, j) ==
        IF k > Len(cg) THEN <<i, j, 0>>
        ELSE LET n == cg[k][1] o == cg[k][2] IN
          IF o = "=" THEN (IF i + n <= Len(read) /\ j + n <= Len(path) /\ SubSeq(read, i + 1, i + n) = SubSeq(path, j + 1, j + n)
                           THEN W(k + 1, i + n, j + n) ELSE <<i, j, k>>)
          ELSE IF o = "X" THEN (IF i + n <= Len(read) /\ j + n <= Len(path) /\ (\A d \in 1..n : Ch(read, i + d) # Ch(path, j + d))
                                THEN W(k + 1, i + n, j + n) ELSE <<i, j, k>>)
          ELSE IF o = "I" THEN (IF i + n <= Len(read) THEN W(k + 1, i + n, j) ELSE <<i, j, k>>)
          ELSE IF o = "D" THEN (IF j + n <= Len(path) THEN W(k + 1, i, j + n) ELSE <<i, j, k>>)
          ELSE <<i, j, k>>
  IN W(1, 0, 0)
RunCount(cg, o) == LET RECURSIVE S(_) S(k) == IF k = 0 THEN 0 ELSE S(k - 1) + (IF cg[k][2] = o THEN cg[k][1] ELSE 0) IN S(Len(cg))
RunLen(cg) == RunCount(cg, "=") + RunCount(cg, "X") + RunCount(cg, "I") + RunCount(cg, "D")
RunCost(cg) == 4 * RunCount(cg, "X") + 2 * (RunCount(cg, "I") + RunCount(cg, "D"))
               + 6 * Cardinality({k \in 1..Len(cg) : cg[k][2] \in {"I", "D"} /\ (k = 1 \/ cg[k - 1][2] # cg[k][2])})

-----------------------------------------------------------------------------
(* generator *)
CONSTANTS Walks,      \* sequences of steps <<o, id>> (walks of the fixed graph below)
          MaxEdits, MaxSlice
NodeSeq == [s1 |-> "ACG", s2 |-> "TTA", s3 |-> "GC"]
VARIABLES walk, ps, pe, j, read, ops, ned, phase
avars == <<walk, ps, pe, j, read, ops, ned, phase>>
Slice == SubSeq(Spell(NodeSeq, walk), ps + 1, pe)
AInit == walk = <<>> /\ ps = 0 /\ pe = 0 /\ j = 0 /\ read = "" /\ ops = <<>> /\ ned = 0 /\ phase = "choose"
Choose(w, a, b) == /\ phase = "choose" /\ 0 <= a /\ a < b /\ b <= Len(Spell(NodeSeq, w)) /\ b - a <= MaxSlice
                   /\ walk' = w /\ ps' = a /\ pe' = b /\ phase' = "edit" /\ UNCHANGED <<j, read, ops, ned>>
Other(b) == CASE b = "A" -> "C" [] b = "C" -> "G" [] b = "G" -> "T" [] OTHER -> "A"
Match == /\ phase = "edit" /\ j < pe - ps
         /\ read' = read \o Ch(Slice, j + 1) /\ ops' = Append(ops, "=") /\ j' = j + 1 /\ UNCHANGED <<walk, ps, pe, ned, phase>>
Sub   == /\ phase = "edit" /\ j < pe - ps /\ ned < MaxEdits
         /\ read' = read \o Other(Ch(Slice, j + 1)) /\ ops' = Append(ops, "X") /\ j' = j + 1 /\ ned' = ned + 1
         /\ UNCHANGED <<walk, ps, pe, phase>>
Ins(b) == /\ phase = "edit" /\ ned < MaxEdits
          /\ read' = read \o b /\ ops' = Append(ops, "I") /\ ned' = ned + 1 /\ UNCHANGED <<walk, ps, pe, j, phase>>
Del   == /\ phase = "edit" /\ j < pe - ps /\ ned < MaxEdits
         /\ ops' = Append(ops, "D") /\ j' = j + 1 /\ ned' = ned + 1 /\ UNCHANGED <<walk, ps, pe, read, phase>>
Done  == /\ phase = "edit" /\ j = pe - ps /\ read # "" /\ phase' = "done" /\ UNCHANGED <<walk, ps, pe, j, read, ops, ned>>
ANext == (\E w \in Walks, a \in 0..8, b \in 1..9 : Choose(w, a, b)) \/ Match \/ Sub \/ Del \/ Done \/ (\E b \in {"A", "T"} : Ins(b))
ASpec == AInit /\ [][ANext]_avars
RECURSIVE Rle(_)
Rle(o) == IF o = <<>> THEN <<>>
          ELSE LET n == CHOOSE n \in 1..Len(o) : (\A k \in 1..n : o[k] = o[1]) /\ (n = Len(o) \/ o[n + 1] # o[1])
               IN <<<<n, o[1]>>>> \o Rle(SubSeq(o, n + 1, Len(o)))
(* every generated (read, ops) is a valid alignment of the slice, and run-length encoding is faithful *)
GeneratedValid == phase = "done" => ValidAln(read, Slice, Rle(ops)) /\ Expand(Rle(ops)) = ops
RunWiseAgrees == phase = "done" =>
   LET cg == Rle(ops) r == RunWalk(read, Slice, cg) IN
     /\ r[3] = 0 /\ r[1] = Len(read) /\ r[2] = Len(Slice)
     /\ RunCost(cg) = Cost(ops) /\ RunLen(cg) = Len(ops) /\ RunCount(cg, "=") = Count(ops, "=")
=============================================================================
