------------------------------- MODULE SortGaf -------------------------------
(* `gaftools sort`: the sort key of an alignment over a BO/NO-tagged rGFA, the order it        *)
(* induces, the three fields appended to every record, and the .gsi index - as operators, and   *)
(* as the two-pass machine of sort.py (ReadRecord* ; Sort ; WriteRecord* ; Finish).             *)
EXTENDS Integers, Sequences, FiniteSets, TLC, Json, IOUtils

GraphFile == IF "SORT_GRAPH" \in DOMAIN IOEnv THEN IOEnv.SORT_GRAPH ELSE "data/sort_graph.json"   \* a second tagging of the same node ids: data/sort_graph_b.json
Graph == JsonDeserialize(GraphFile)   \* node |-> [sn, so, ln, sr, bo, no]; bo = no = -1: untagged
Pool  == JsonDeserialize("data/sort_pool.json")    \* records [walk |-> <<<<o, id>>, ...>>, ps, pe]

PLen(r) == LET RECURSIVE S(_) S(k) == IF k = 0 THEN 0 ELSE S(k - 1) + Graph[r.walk[k][2]].ln IN S(Len(r.walk))
Tagged(n) == Graph[n].bo # 0 - 1 /\ Graph[n].no # 0 - 1
ScaffoldSteps(r) == {k \in 1..Len(r.walk) : Tagged(r.walk[k][2]) /\ Graph[r.walk[k][2]].no = 0}
NFwd(r) == Cardinality({k \in ScaffoldSteps(r) : r.walk[k][1] = ">"})
NRev(r) == Cardinality({k \in ScaffoldSteps(r) : r.walk[k][1] = "<"})
Reversed(r) == NFwd(r) < NRev(r)              \* scaffold nodes are mostly traversed backwards
Anchor(r) == IF Reversed(r) THEN r.walk[Len(r.walk)][2] ELSE r.walk[1][2]
Start(r)  == IF Reversed(r) THEN PLen(r) - r.pe ELSE r.ps
KeyBO(r) == Graph[Anchor(r)].bo
KeyNO(r) == Graph[Anchor(r)].no
Iv(r) == IF NFwd(r) > 0 /\ NRev(r) > 0 THEN 1 ELSE 0
RefSteps(r) == {k \in 1..Len(r.walk) : Graph[r.walk[k][2]].sr = 0}
Sn(r) == IF RefSteps(r) = {} THEN "unknown"
         ELSE Graph[r.walk[CHOOSE k \in RefSteps(r) : \A j \in RefSteps(r) : k <= j][2]].sn

(* strict order on (record, input position); untagged anchors (BO = -1) after everything else *)
Less(a, pa, b, pb) ==
  IF KeyBO(a) = 0 - 1 \/ KeyBO(b) = 0 - 1
  THEN (KeyBO(a) # 0 - 1 /\ KeyBO(b) = 0 - 1) \/ (KeyBO(a) = 0 - 1 /\ KeyBO(b) = 0 - 1 /\ pa < pb)
  ELSE \/ KeyBO(a) < KeyBO(b)
       \/ KeyBO(a) = KeyBO(b) /\ KeyNO(a) < KeyNO(b)
       \/ KeyBO(a) = KeyBO(b) /\ KeyNO(a) = KeyNO(b) /\ Start(a) < Start(b)
       \/ KeyBO(a) = KeyBO(b) /\ KeyNO(a) = KeyNO(b) /\ Start(a) = Start(b) /\ pa < pb
SameKey(a, b) == KeyBO(a) = KeyBO(b) /\ KeyNO(a) = KeyNO(b) /\ Start(a) = Start(b)

(* F: sequence of records; the sorted order as a sequence of input positions *)
SortedOrder(F) == LET n == Len(F) IN
  CHOOSE s \in [1..n -> 1..n] :
     /\ \A i, j \in 1..n : i # j => s[i] # s[j]
     /\ \A i \in 1..(n - 1) : Less(F[s[i]], s[i], F[s[i + 1]], s[i + 1])

(* acceptance of an observed output order (positions into F), as the property states it: *)
(* keys non-decreasing, exact ties in input order, untagged anchors last (any order among them) *)
OrderOK(F, s) == \A i \in 1..(Len(s) - 1) :
   LET a == F[s[i]]
       b == F[s[i + 1]]
   IN IF KeyBO(a) = 0 - 1 THEN KeyBO(b) = 0 - 1
      ELSE IF KeyBO(b) = 0 - 1 THEN TRUE
      ELSE ~Less(b, 0, a, 0) /\ (SameKey(a, b) => s[i] < s[i + 1])

(* the .gsi index over the written order: contig |-> <<first ordinal, last ordinal>> *)
Contigs(F) == {Sn(F[k]) : k \in 1..Len(F)} \ {"unknown"}
GsiOf(F, s) == [c \in Contigs(F) |->
   LET P == {i \in 1..Len(s) : Sn(F[s[i]]) = c} IN
     <<CHOOSE i \in P : \A j \in P : i <= j, CHOOSE i \in P : \A j \in P : j <= i>>]

-----------------------------------------------------------------------------
(* the two-pass machine *)
CONSTANT MaxLen
VARIABLES input, phase, nread, order, nout, gsi
svars == <<input, phase, nread, order, nout, gsi>>
F == [k \in 1..Len(input) |-> Pool[input[k]]]
SInit == input = <<>> /\ phase = "build" /\ nread = 0 /\ order = <<>> /\ nout = 0 /\ gsi = <<>>
Append1(p) == /\ phase = "build" /\ Len(input) < MaxLen /\ input' = Append(input, p)
              /\ UNCHANGED <<phase, nread, order, nout, gsi>>
Open == phase = "build" /\ input # <<>> /\ phase' = "read" /\ UNCHANGED <<input, nread, order, nout, gsi>>
ReadRecord == /\ phase = "read" /\ nread < Len(input) /\ nread' = nread + 1
              /\ UNCHANGED <<input, phase, order, nout, gsi>>
Sort == /\ phase = "read" /\ nread = Len(input)
        /\ order' = SortedOrder(F) /\ phase' = "write" /\ UNCHANGED <<input, nread, nout, gsi>>
WriteRecord == /\ phase = "write" /\ nout < Len(order)
               /\ LET c == Sn(F[order[nout + 1]]) IN
                    gsi' = IF c \in DOMAIN gsi THEN [gsi EXCEPT ![c] = <<@[1], nout + 1>>]
                           ELSE (c :> <<nout + 1, nout + 1>>) @@ gsi
               /\ nout' = nout + 1 /\ UNCHANGED <<input, phase, nread, order>>
Finish == /\ phase = "write" /\ nout = Len(order)
          /\ gsi' = [c \in DOMAIN gsi \ {"unknown"} |-> gsi[c]]
          /\ phase' = "done" /\ UNCHANGED <<input, nread, order, nout>>
SNext == (\E p \in 1..Len(Pool) : Append1(p)) \/ Open \/ ReadRecord \/ Sort \/ WriteRecord \/ Finish
SSpec == SInit /\ [][SNext]_svars

(* design properties *)
LessIsStrictTotal ==   \* on the current file: irreflexive, asymmetric, transitive, total
  phase = "read" => LET n == Len(input) IN
    /\ \A i \in 1..n : ~Less(F[i], i, F[i], i)
    /\ \A i, j \in 1..n : i # j => (Less(F[i], i, F[j], j) <=> ~Less(F[j], j, F[i], i))
    /\ \A i, j, k \in 1..n : Less(F[i], i, F[j], j) /\ Less(F[j], j, F[k], k) => Less(F[i], i, F[k], k)
SortedIsAccepted == phase \in {"write", "done"} => OrderOK(F, order)
GsiIsExact == phase = "done" => gsi = GsiOf(F, order)
=============================================================================
