SPECIFICATION BSpec
CONSTANTS MaxChrom = 3  MaxUnits = 1  Kinds = {"snp"}  EndKinds = {"tip"}  Defects = {"branch"}  MaxDefects = 2  MinUnits = 1  Pattern <- NoPattern  Wholes = {"single", "ring"}
INVARIANT ConstructionOK
INVARIANT LexSanity
CHECK_DEADLOCK FALSE
