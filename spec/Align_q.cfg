SPECIFICATION ASpec
CONSTANTS Walks <- WalksQ  MaxEdits = 1  MaxSlice = 5
INVARIANT GeneratedValid
INVARIANT RunWiseAgrees
CHECK_DEADLOCK FALSE
