SPECIFICATION ASpec
CONSTANTS Walks <- WalksQ  MaxEdits = 1  MaxSlice = 5
INVARIANT GeneratedValid
CHECK_DEADLOCK FALSE
