---- MODULE Check_Cli ----
(* Code -> spec for X05: one case = one request of CliTable.tla made against real files.                    *)
(*   c.q the request, c.kind what happened ("ok" / "usage" / "error" / "exception" / "timeout" / "exit<n>"),   *)
(*   c.created the files that appeared, c.declared_ok whether the declared outputs exist, c.count the number  *)
(*   of records / lines of the primary output, c.n the counts of the harness's input file.                    *)
EXTENDS CliTable, Json, IOUtils
Cases == ndJsonDeserialize(IOEnv.CASES)
VARIABLE ci
Verdict(c) ==
  LET exp == Outcome(c.q) IN
  IF c.kind # exp THEN c.q.cmd \o "_expected_" \o exp \o "_got_" \o c.kind
  ELSE IF exp = "usage" /\ c.created # <<>> THEN c.q.cmd \o "_usage_error_left_files"
  ELSE IF exp = "ok" /\ ~c.declared_ok THEN c.q.cmd \o "_declared_output_missing"
  ELSE IF exp = "ok" /\ c.q.cmd = "view" /\ c.count # ViewCount(c.q.r, c.n) THEN "view_record_count_wrong"
  ELSE IF exp = "ok" /\ c.q.cmd = "sort" /\ c.count # c.n.all THEN "sort_record_count_wrong"
  ELSE IF exp = "ok" /\ c.q.cmd = "find_path" /\ c.count # PathLines(c.q.r) THEN "find_path_line_count_wrong"
  ELSE IF exp = "ok" /\ c.q.cmd = "phase" /\ c.count # PhaseCount(c.q.r, c.n) THEN "phase_record_count_wrong"
  ELSE IF exp = "ok" /\ c.q.cmd = "realign" /\ c.count # RealignCount(c.q.r, c.n) THEN "realign_record_count_wrong"
  ELSE "ok"
CInit == ci = 1 /\ req \in {CHOOSE x \in Reqs : TRUE}
CNext == /\ ci <= Len(Cases)
         /\ PrintT(<<"VERDICT", Cases[ci].id, Verdict(Cases[ci])>>)
         /\ ci' = ci + 1 /\ UNCHANGED req
CSpec == CInit /\ [][CNext]_<<ci, req>>
AllConsumed == TLCGet("stats").diameter - 1 = Len(Cases)
====
