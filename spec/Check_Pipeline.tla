---- MODULE Check_Pipeline ----
(* Code -> spec for X04: one case = one history of Pipeline.tla run on real files.                       *)
(*   c.file   initial file (index into data/pipeline.json), c.init[i] the optional fields of its  *)
(*            i-th record as written by the harness, c.hist the commands,                                  *)
(*   c.steps[k] what the k-th command left: status, recs = <<[pos, tags, cols_ok]>> in file order           *)
(*            (pos = 0: a line that is none of the initial records).                                       *)
(* The expected file after every step is computed by folding Pipeline!Apply from the initial file - the   *)
(* model of the code (Resort = "append") - and compared record by record.                                 *)
EXTENDS Pipeline
Cases == ndJsonDeserialize(IOEnv.CASES)
VARIABLE ci
RECURSIVE Fold(_, _)
Fold(c, k) == IF k = 0 THEN [i \in 1..Len(c.init) |-> [pos |-> i, tags |-> c.init[i]]]
              ELSE Apply(c.file, Fold(c, k - 1), c.hist[k])
StepVerdict(c, k) ==
  LET exp == Fold(c, k)
      obs == c.steps[k]
      nm == c.hist[k].t
  IN IF nm = "nofilter" THEN
        (IF obs.kind = "ok" THEN "empty_selection_reported_as_success"
         ELSE IF obs.kind # "exit" THEN "empty_selection_" \o obs.status ELSE "ok")
     ELSE IF obs.status # "ok" THEN nm \o "_failed_" \o obs.status
     ELSE IF \E i \in 1..Len(obs.recs) : obs.recs[i].pos = 0 THEN nm \o "_wrote_a_line_that_is_no_input_record"
     ELSE IF Len(obs.recs) # Len(exp) THEN nm \o (IF Len(obs.recs) < Len(exp) THEN "_lost_records" ELSE "_added_records")
     ELSE IF [i \in 1..Len(exp) |-> obs.recs[i].pos] # Order(exp) THEN nm \o "_order_or_selection_wrong"
     ELSE IF \E i \in 1..Len(exp) : ~obs.recs[i].cols_ok THEN nm \o "_altered_mandatory_columns"
     ELSE IF \E i \in 1..Len(exp) : obs.recs[i].tags # BagOf(exp[i].tags) THEN nm \o "_optional_fields_wrong"
     \* `gaftools stat --cigar` is a function of the bag of records and of none of the fields the commands add: a command that
     \* keeps every record leaves the report as it was
     ELSE IF obs.stat = "stat_failed" THEN "stat_fails_on_the_output_of_" \o nm
     ELSE IF nm \in {"sort", "phase", "cat"} /\ obs.stat # (IF k = 1 THEN c.stat0 ELSE c.steps[k - 1].stat) THEN nm \o "_changed_the_statistics"
     ELSE "ok"
Verdict(c) ==
  IF Len(c.steps) # Len(c.hist) THEN "harness_steps_missing"
  ELSE LET bad == {k \in 1..Len(c.hist) : StepVerdict(c, k) # "ok"} IN
       IF bad = {} THEN "ok" ELSE StepVerdict(c, CHOOSE k \in bad : \A j \in bad : k <= j)
CInit == ci = 1 /\ PInit
CNext == /\ ci <= Len(Cases)
         /\ PrintT(<<"VERDICT", Cases[ci].id, Verdict(Cases[ci])>>)
         /\ ci' = ci + 1 /\ UNCHANGED <<pvars, svars>>
CSpec == CInit /\ [][CNext]_<<ci, pvars, svars>>
AllConsumed == TLCGet("stats").diameter - 1 = Len(Cases)
====
