---------------------------- MODULE RealignCount ----------------------------
(* A counting abstraction of one group of Realign.tla, for an inductive proof with Apalache that *)
(* holds for an ARBITRARY batch size K (symbolic integer) and a fixed number of workers.         *)
(*                                                                                               *)
(* Per worker w the queue is FIFO (buffer, then pipe), so the state of its items is three        *)
(* counters  got[w] <= fl[w] <= put[w] <= K + 1 : items received by the parent, flushed to the   *)
(* pipe, put into the buffer (item K + 1 is the sentinel).  The order in which the parent        *)
(* receives items of different workers is left completely free (an over-approximation of the     *)
(* single FIFO pipe), and the pipe capacity is ignored (it only restricts behaviours).           *)
(* Refinement mapping from Realign.tla (one group): put[w] = wnext[w] + [sentinel put],          *)
(* fl[w] = put[w] - Len(buf[w]), got[w] = fl[w] - #items of w in pipe.                           *)
(*                                                                                               *)
(* Safety: the parent finishes only after it has received every record of every worker; with    *)
(* Fixed = FALSE (the D11 deviation) the invariant is NOT inductive - Apalache gives the stale   *)
(* item counterexample.                                                                          *)
EXTENDS Integers, FiniteSets

CONSTANTS
  \* @type: Int;
  K,
  \* @type: Bool;
  Fixed

Workers == {1, 2, 3}
W == 3

VARIABLES
  \* @type: Int -> Int;
  put,
  \* @type: Int -> Int;
  fl,
  \* @type: Int -> Int;
  got,
  \* @type: Int -> Str;
  wst,
  \* @type: Str;
  ppc,
  \* @type: Int;
  nsent,
  \* @type: Int;
  stale

ConstInit == K \in Nat /\ K >= 1 /\ Fixed \in BOOLEAN
ConstInitFixed == K \in Nat /\ K >= 1 /\ Fixed = TRUE
ConstInitD11 == K \in Nat /\ K >= 1 /\ Fixed = FALSE

Alive(w) == wst[w] = "run"
Init == /\ put = [w \in Workers |-> 0] /\ fl = [w \in Workers |-> 0] /\ got = [w \in Workers |-> 0]
        /\ wst = [w \in Workers |-> "run"] /\ ppc = "get" /\ nsent = 0 /\ stale = 0 - 1

WPut(w) == /\ wst[w] = "run" /\ put[w] < K + 1
           /\ put' = [put EXCEPT ![w] = @ + 1] /\ UNCHANGED <<fl, got, wst, ppc, nsent, stale>>
WFlush(w) == /\ wst[w] = "run" /\ fl[w] < put[w]
             /\ fl' = [fl EXCEPT ![w] = @ + 1] /\ UNCHANGED <<put, got, wst, ppc, nsent, stale>>
WExit(w) == /\ wst[w] = "run" /\ put[w] = K + 1 /\ fl[w] = put[w]
            /\ wst' = [wst EXCEPT ![w] = "exited"] /\ UNCHANGED <<put, fl, got, ppc, nsent, stale>>
WKill(w) == /\ wst[w] = "run"
            /\ wst' = [wst EXCEPT ![w] = "dead"] /\ put' = [put EXCEPT ![w] = fl[w]]      \* the buffer is lost
            /\ UNCHANGED <<fl, got, ppc, nsent, stale>>
\* the parent receives the next item of worker w; stale remembers whether it was a sentinel (1) or a record (0)
PGet(w) == /\ ppc = "get" /\ got[w] < fl[w]
           /\ got' = [got EXCEPT ![w] = @ + 1]
           /\ LET sentinel == got[w] + 1 = K + 1
                  ns == IF sentinel THEN nsent + 1 ELSE nsent
              IN nsent' = ns /\ stale' = (IF sentinel THEN 1 ELSE 0) /\ ppc' = IF ns = W THEN "join" ELSE "get"
           /\ UNCHANGED <<put, fl, wst>>
PTimeout == /\ ppc = "get" /\ \A w \in Workers : got[w] = fl[w]
            /\ ppc' = "alive" /\ UNCHANGED <<put, fl, got, wst, nsent, stale>>
PAlive == /\ ppc = "alive"
          /\ ppc' = IF \E w \in Workers : Alive(w) THEN "get" ELSE "exitchk"
          /\ UNCHANGED <<put, fl, got, wst, nsent, stale>>
PExitChk == /\ ppc = "exitchk"
            /\ IF \E w \in Workers : wst[w] # "exited" THEN ppc' = "aborted" /\ nsent' = nsent
               ELSE IF Fixed THEN ppc' = "get" /\ nsent' = nsent
               ELSE \* deviation D11: the stale item is handled again
                    LET ns == IF stale = 1 THEN nsent + 1 ELSE nsent IN
                    nsent' = ns /\ ppc' = (IF stale = 0 - 1 THEN "crashed" ELSE IF ns = W THEN "join" ELSE "get")
            /\ UNCHANGED <<put, fl, got, wst, stale>>
PJoin == /\ ppc = "join" /\ \A w \in Workers : ~Alive(w)
         /\ ppc' = "finished" /\ UNCHANGED <<put, fl, got, wst, nsent, stale>>
Next == \/ \E w \in Workers : WPut(w) \/ WFlush(w) \/ WExit(w) \/ WKill(w) \/ PGet(w)
        \/ PTimeout \/ PAlive \/ PExitChk \/ PJoin

(* the property: success only with every record (and every sentinel) received *)
Safety == ppc = "finished" => \A w \in Workers : got[w] = K + 1

TypeOK == /\ put \in [Workers -> Int] /\ fl \in [Workers -> Int] /\ got \in [Workers -> Int]
          /\ wst \in [Workers -> {"run", "exited", "dead"}]
          /\ ppc \in {"get", "alive", "exitchk", "join", "finished", "aborted", "crashed"}
          /\ nsent \in Int /\ stale \in {0 - 1, 0, 1}
IndInv == /\ TypeOK
          /\ \A w \in Workers : 0 <= got[w] /\ got[w] <= fl[w] /\ fl[w] <= put[w] /\ put[w] <= K + 1
          /\ nsent = Cardinality({w \in Workers : got[w] = K + 1})
          /\ \A w \in Workers : wst[w] = "exited" => (put[w] = K + 1 /\ fl[w] = K + 1)
          /\ \A w \in Workers : wst[w] = "dead" => put[w] = fl[w]
          /\ (ppc \in {"join", "finished"} => nsent = W)
          /\ (ppc \in {"get", "alive", "exitchk"} => nsent < W)
          /\ ppc # "crashed"
          /\ Safety
=============================================================================
