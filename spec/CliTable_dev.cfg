SPECIFICATION TSpec
INVARIANT NoExceptionOutcome
CHECK_DEADLOCK FALSE
