------------------------------ MODULE Pipeline ------------------------------
(* Growth of the specification beyond the listed properties: HISTORIES of commands on one GAF file.   *)
(* The listed properties speak about one invocation on a file the user wrote; users run the commands  *)
(* in pipelines, each on the OUTPUT of the one before (records that already carry bo/sn/iv or ps/ht,  *)
(* a file in sorted order, a file without final newline as `phase` writes it, a BGZF file written by  *)
(* `sort --bgzip`, an empty selection).  The commands are total functions on an abstract file:        *)
(*                                                                                                     *)
(*    file  G  =  sequence of entries [pos, tags]                                                      *)
(*       pos  : position of the record in the INITIAL file (identity of the record; the 12 mandatory   *)
(*              columns never change)                                                                   *)
(*       tags : the optional fields "xx:T:value" in the order the code writes them (phase puts ps/ht     *)
(*              first, sort appends bo/sn/iv last); the CONTRACT compares them as a bag (BagOf)          *)
(*                                                                                                     *)
(* and TLC explores every history up to MaxDepth over every initial file of data/pipeline.json,       *)
(* checking the ALGEBRA the commands obey (sort is idempotent on the order, sort and a node selection  *)
(* commute, two selections commute, sort and phase commute on files with unique tags, nothing is ever  *)
(* lost or invented).  The same operators validate step by step what the real commands leave when     *)
(* every history is run on real files (Check_Pipeline).                                                *)
(*                                                                                                     *)
(* Sort key, bo/sn/iv values: SortGaf.  Resort = "append" is what sort.py does on a file that already  *)
(* carries bo/sn/iv (named deviation E1: the three fields are appended again, TagsUniqueSort fails);   *)
(* Resort = "replace" is the idealised design in which all the laws hold without the side condition.   *)
EXTENDS SortGaf

PData == JsonDeserialize("data/pipeline.json")    \* files: pool indices; tsvs: rows <<pos, "ps:Z:..", "ht:Z:..">>; nodes
CONSTANTS MaxDepth, Resort

RecOf(f, e) == Pool[PData.files[f][e.pos]]
KeyOfTag(s) == IF Len(s) >= 5 THEN SubSeq(s, 1, 5) ELSE s
WithoutKeys(q, K) == SelectSeq(q, LAMBDA x : KeyOfTag(x) \notin K)
(* a record parsed by gaf.py and written back: one field per tag at the place of its first occurrence, with the value *)
(* of the FIRST one (the CIGAR: of the last one); ds:Z is documented as unsupported and dropped                        *)
Once(q) == LET firsts == {i \in 1..Len(q) : \A j \in 1..(i - 1) : KeyOfTag(q[j]) # KeyOfTag(q[i])}
               LastOf(i) == q[CHOOSE j \in i..Len(q) : KeyOfTag(q[j]) = KeyOfTag(q[i]) /\ \A m \in (j + 1)..Len(q) : KeyOfTag(q[m]) # KeyOfTag(q[i])]
               RECURSIVE Build(_)
               Build(i) == IF i > Len(q) THEN <<>>
                           ELSE (IF i \in firsts /\ KeyOfTag(q[i]) # "ds:Z:" THEN <<IF KeyOfTag(q[i]) = "cg:Z:" THEN LastOf(i) ELSE q[i]>> ELSE <<>>) \o Build(i + 1)
           IN Build(1)
(* the order of the fields inside a record is how the code writes them; the CONTRACT compares records as bags (BagOf) *)
BagOf(q) == [x \in {q[i] : i \in 1..Len(q)} |-> Cardinality({i \in 1..Len(q) : q[i] = x})]

(* ---- sort: stable insertion by SortGaf!Less on (record, current position) ---- *)
LessAt(f, G, i, j) == Less(RecOf(f, G[i]), i, RecOf(f, G[j]), j)
RECURSIVE SortIdx(_, _, _)
SortIdx(f, G, k) ==
  IF k = 0 THEN <<>>
  ELSE LET s == SortIdx(f, G, k - 1)
           m == Cardinality({i \in 1..Len(s) : LessAt(f, G, s[i], k)})     \* Less is a strict total order: a prefix
       IN SubSeq(s, 1, m) \o <<k>> \o SubSeq(s, m + 1, Len(s))
SortFields(r) == <<"bo:i:" \o ToString(KeyBO(r)), "sn:Z:" \o Sn(r), "iv:i:" \o ToString(Iv(r))>>
AddSortFields(q, r) ==
  (IF Resort = "replace" THEN WithoutKeys(q, {"bo:i:", "sn:Z:", "iv:i:"}) ELSE q) \o SortFields(r)
CmdSort(f, G) == LET s == SortIdx(f, G, Len(G)) IN
  [i \in 1..Len(G) |-> [pos |-> G[s[i]].pos, tags |-> AddSortFields(G[s[i]].tags, RecOf(f, G[s[i]]))]]

(* ---- phase: the first TSV row of a read decides; the old fields come back once each ---- *)
Annot(t, p) == LET rows == {k \in 1..Len(PData.tsvs[t]) : PData.tsvs[t][k][1] = p} IN
  IF rows = {} THEN <<"ps:Z:none", "ht:Z:none">>
  ELSE LET k == CHOOSE k \in rows : \A j \in rows : k <= j IN <<PData.tsvs[t][k][2], PData.tsvs[t][k][3]>>
CmdPhase(G, t) == [i \in 1..Len(G) |->
  [pos |-> G[i].pos, tags |-> Annot(t, G[i].pos) \o Once(G[i].tags)]]

(* ---- index + view --node: the records whose walk traverses the node, in file order; a selected record is written ---- *)
(* ---- back from its parsed form (one field per tag); a selection that matches nothing is an ERROR, not an empty file ---- *)
Traverses(r, n) == \E k \in 1..Len(r.walk) : r.walk[k][2] = n
CmdFilter(f, G, n) == LET S == SelectSeq(G, LAMBDA e : Traverses(RecOf(f, e), n)) IN
  [i \in 1..Len(S) |-> [pos |-> S[i].pos, tags |-> Once(S[i].tags)]]

Cmds == {[t |-> "sort"], [t |-> "cat"]} \cup {[t |-> "phase", k |-> k] : k \in 1..Len(PData.tsvs)}
        \cup {[t |-> "filter", n |-> PData.nodes[k]] : k \in 1..Len(PData.nodes)}
Apply(f, G, c) == CASE c.t = "sort" -> CmdSort(f, G)
                    [] c.t = "phase" -> CmdPhase(G, c.k)
                    [] c.t = "filter" -> CmdFilter(f, G, c.n)
                    [] c.t = "nofilter" -> G                     \* the selection matched nothing: the command failed, no file
                    [] c.t = "cat" -> G                          \* view without a selection: the lines as they are

-----------------------------------------------------------------------------
VARIABLES file, G, hist
pvars == <<file, G, hist>>
Initial(f) == [i \in 1..Len(PData.files[f]) |-> [pos |-> i, tags |-> <<"cg:Z:" \o ToString(i)>>]]
NPhase(h) == Cardinality({k \in 1..Len(h) : h[k].t = "phase"})
PInit == /\ file \in 1..Len(PData.files) /\ G = Initial(file) /\ hist = <<>> /\ SInit
Halted == hist # <<>> /\ hist[Len(hist)].t = "nofilter"      \* a failed command ends the pipeline
PNext == /\ Len(hist) < MaxDepth /\ ~Halted
         /\ \E c \in Cmds :
              /\ IF c.t = "filter" /\ CmdFilter(file, G, c.n) = <<>>
                 THEN G' = G /\ hist' = Append(hist, [t |-> "nofilter", n |-> c.n])
                 ELSE G' = Apply(file, G, c) /\ hist' = Append(hist, c)
         /\ UNCHANGED <<file, svars>>
PSpec == PInit /\ [][PNext]_<<pvars, svars>>

Order(H) == [i \in 1..Len(H) |-> H[i].pos]
KeysOf(q) == {KeyOfTag(q[i]) : i \in 1..Len(q)}
CountKey(q, k) == Cardinality({i \in 1..Len(q) : KeyOfTag(q[i]) = k})
UniqueTags(H) == \A i \in 1..Len(H) : \A k \in KeysOf(H[i].tags) : CountKey(H[i].tags, k) = 1
(* nothing lost, invented or doubled: the positions are distinct and come in a subsequence of a permutation *)
RecordsAreASelection == \A i, j \in 1..Len(G) : i # j => G[i].pos # G[j].pos
OnlySelectionsShrink == [][(hist' # hist /\ hist'[Len(hist')].t # "filter") => Len(G') = Len(G)]_<<pvars, svars>>
NeverEmpty == G # <<>>
SortIdempotentOnOrder == Order(CmdSort(file, CmdSort(file, G))) = Order(CmdSort(file, G))
NoSortFields(H) == \A i \in 1..Len(H) : KeysOf(H[i].tags) \cap {"bo:i:", "sn:Z:", "iv:i:"} = {}
NoPhaseFields(H) == \A i \in 1..Len(H) : KeysOf(H[i].tags) \cap {"ps:Z:", "ht:Z:"} = {}
(* the laws hold outright in the idealised design; in the model of the code they need the file not to carry the fields yet *)
Clean(H) == UniqueTags(H) /\ (Resort = "append" => NoSortFields(H))
SortCommutesWithSelection == Clean(G) => \A k \in 1..Len(PData.nodes) :
   CmdFilter(file, CmdSort(file, G), PData.nodes[k]) = CmdSort(file, CmdFilter(file, G, PData.nodes[k]))
SelectionsCommute == \A k, m \in 1..Len(PData.nodes) :
   CmdFilter(file, CmdFilter(file, G, PData.nodes[k]), PData.nodes[m]) = CmdFilter(file, CmdFilter(file, G, PData.nodes[m]), PData.nodes[k])
SortCommutesWithPhase == Clean(G) => \A t \in 1..Len(PData.tsvs) :
   CmdPhase(CmdSort(file, G), t) = CmdSort(file, CmdPhase(G, t))
PhaseCommutesWithSelection == NoPhaseFields(G) => \A t \in 1..Len(PData.tsvs) : \A k \in 1..Len(PData.nodes) :
   CmdFilter(file, CmdPhase(G, t), PData.nodes[k]) = CmdPhase(CmdFilter(file, G, PData.nodes[k]), t)
(* E1: holds with Resort = "replace"; with "append" (the code) a second sort doubles bo/sn/iv *)
TagsUniqueSort == \A i \in 1..Len(G) : \A k \in {"bo:i:", "sn:Z:", "iv:i:"} : CountKey(G[i].tags, k) <= 1
(* E2: a second phase leaves the old ps/ht next to the new ones *)
TagsUniquePhase == \A i \in 1..Len(G) : \A k \in {"ps:Z:", "ht:Z:"} : CountKey(G[i].tags, k) <= 1
=============================================================================
