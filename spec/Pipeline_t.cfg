SPECIFICATION PSpec
CONSTANTS MaxDepth = 4  Resort = "replace"  MaxLen = 0
INVARIANT RecordsAreASelection
INVARIANT SortIdempotentOnOrder
INVARIANT SortCommutesWithSelection
INVARIANT SelectionsCommute
INVARIANT SortCommutesWithPhase
INVARIANT PhaseCommutesWithSelection
INVARIANT TagsUniqueSort
INVARIANT NeverEmpty
PROPERTY OnlySelectionsShrink
CHECK_DEADLOCK FALSE
