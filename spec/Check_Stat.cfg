SPECIFICATION CSpec
CONSTANT MaxLen = 0
POSTCONDITION AllConsumed
CHECK_DEADLOCK FALSE
