SPECIFICATION GSpec
CONSTANTS MaxRef = 3  MaxHap = 2  Lens = {1, 2}  Gaps = {0, 3}  MaxWalk = 2  HapBase = 10
INVARIANT ConversionTheorems
CHECK_DEADLOCK FALSE
