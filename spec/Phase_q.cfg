SPECIFICATION PSpec
CONSTANT MaxFile = 2
INVARIANT AnnotationsAllowed
CHECK_DEADLOCK FALSE
