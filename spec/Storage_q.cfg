SPECIFICATION SSpec
CONSTANTS Lens = {0, 1, 3}  MaxLines = 4  Payloads = {1, 2, 3, 5}
INVARIANT RoundTrip
INVARIANT DistinctOffsets
CHECK_DEADLOCK FALSE
