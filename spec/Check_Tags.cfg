SPECIFICATION CSpec
CONSTANTS MaxFields = 0  ZLen = 0  SecondRich = FALSE
POSTCONDITION AllConsumed
CHECK_DEADLOCK FALSE
