-------------------------------- MODULE Stat --------------------------------
(* `gaftools stat`: the report as a declarative function of the file (Report), and the loop of *)
(* run_stat as a machine consuming one record at a time (Consume); TLC checks that the machine  *)
(* agrees with Report on every prefix and that Report is invariant under permutation.           *)
(* Ratios are kept exact: identity = m / bl, map ratio = (qe - qs) / qlen as pairs <<num, den>>. *)
EXTENDS Integers, Sequences, FiniteSets, TLC, Json
Pool == JsonDeserialize("data/stat_pool.json")

Primary(r) == r.tp \in {"", "P"} /\ r.mq > 0        \* not secondary by tag, mapping quality above 0
Prim(F) == {k \in 1..Len(F) : Primary(F[k])}
Reads(F) == {F[k].name : k \in Prim(F)}
Ident(r) == <<r.m, r.bl>>
Ratio(r) == <<r.qe - r.qs, r.qlen>>
Geq(x, y) == x[1] * y[2] >= y[1] * x[2]              \* x >= y for positive denominators
MaxFrac(S) == CHOOSE x \in S : \A y \in S : Geq(x, y)
BestIdent(F, n) == MaxFrac({Ident(F[k]) : k \in {j \in Prim(F) : F[j].name = n}})
BestRatio(F, n) == MaxFrac({Ratio(F[k]) : k \in {j \in Prim(F) : F[j].name = n}})
RunsOf(F, op) == LET RECURSIVE S(_) S(k) == IF k = 0 THEN 0 ELSE S(k - 1) +
                        (IF k \in Prim(F) THEN Cardinality({j \in 1..Len(F[k].cg) : F[k].cg[j][2] = op}) ELSE 0)
                 IN S(Len(F))
BigRunsOf(F, op) == LET RECURSIVE S(_) S(k) == IF k = 0 THEN 0 ELSE S(k - 1) +
                        (IF k \in Prim(F) THEN Cardinality({j \in 1..Len(F[k].cg) : F[k].cg[j][2] = op /\ F[k].cg[j][1] >= 50}) ELSE 0)
                    IN S(Len(F))
SumOver(F, f(_)) == LET RECURSIVE S(_) S(k) == IF k = 0 THEN 0 ELSE S(k - 1) + (IF k \in Prim(F) THEN f(F[k]) ELSE 0) IN S(Len(F))
Matches(r) == r.m
Report(F) == [total |-> Len(F), primary |-> Cardinality(Prim(F)), secondary |-> Len(F) - Cardinality(Prim(F)),
              reads |-> Cardinality(Reads(F)), bases |-> SumOver(F, Matches),
              ident |-> [n \in Reads(F) |-> BestIdent(F, n)], ratio |-> [n \in Reads(F) |-> BestRatio(F, n)],
              del |-> RunsOf(F, "D"), ins |-> RunsOf(F, "I"), sub |-> RunsOf(F, "X"), mat |-> RunsOf(F, "="),
              bigdel |-> BigRunsOf(F, "D"), bigins |-> BigRunsOf(F, "I"), bigsub |-> BigRunsOf(F, "X"), bigmat |-> BigRunsOf(F, "="),
              perfect |-> Cardinality({k \in Prim(F) : Len(F[k].cg) = 1})]

(* a printed average p (in thousandths) of fractions fr over a non-empty set: accepted within  *)
(* half a unit of the last printed digit (plus slack for float summation).  All fractions here  *)
(* have denominators dividing D.                                                                *)
D == 10000
Scaled(x) == (x[1] * D) \div x[2]                    \* exact when x[2] divides D
AvgOK(p, fr) == LET n == Cardinality(DOMAIN fr)
                    RECURSIVE S(_)
                    S(T) == IF T = {} THEN 0 ELSE LET t == CHOOSE t \in T : TRUE IN Scaled(fr[t]) + S(T \ {t})
                    sum == S(DOMAIN fr)                         \* = D * (sum of the fractions)
                IN IF n = 0 THEN TRUE
                   ELSE LET diff == 2 * p * (D \div 1000) * n - 2 * sum IN        \* 2 * D * n * (p/1000 - mean)
                        diff <= (D \div 1000) * n + 2 /\ 0 - diff <= (D \div 1000) * n + 2

-----------------------------------------------------------------------------
(* the loop of run_stat *)
CONSTANT MaxLen
VARIABLES input, k, cnt, best
tvars == <<input, k, cnt, best>>
F == [j \in 1..Len(input) |-> Pool[input[j]]]
Zero == [primary |-> 0, secondary |-> 0, bases |-> 0]
TInit == input = <<>> /\ k = 0 /\ cnt = Zero /\ best = <<>>
Add(p) == k = 0 /\ Len(input) < MaxLen /\ input' = Append(input, p) /\ UNCHANGED <<k, cnt, best>>
Consume == /\ k < Len(input) /\ input # <<>>
           /\ LET r == F[k + 1] IN
                IF ~Primary(r) THEN cnt' = [cnt EXCEPT !.secondary = @ + 1] /\ best' = best
                ELSE /\ cnt' = [cnt EXCEPT !.primary = @ + 1, !.bases = @ + r.m]
                     /\ best' = IF r.name \in DOMAIN best
                                THEN [best EXCEPT ![r.name] = [id |-> IF Geq(@.id, Ident(r)) THEN @.id ELSE Ident(r),
                                                               ra |-> IF Geq(@.ra, Ratio(r)) THEN @.ra ELSE Ratio(r)]]
                                ELSE (r.name :> [id |-> Ident(r), ra |-> Ratio(r)]) @@ best
           /\ k' = k + 1 /\ UNCHANGED input
TNext == (\E p \in 1..Len(Pool) : Add(p)) \/ Consume
TSpec == TInit /\ [][TNext]_tvars
SameFrac(x, y) == x[1] * y[2] = y[1] * x[2]
ConsumeMatchesReport ==
  LET R == Report(SubSeq(F, 1, k)) IN
    /\ cnt.primary = R.primary /\ cnt.secondary = R.secondary /\ cnt.bases = R.bases
    /\ DOMAIN best = DOMAIN R.ident
    /\ \A n \in DOMAIN best : SameFrac(best[n].id, R.ident[n]) /\ SameFrac(best[n].ra, R.ratio[n])
(* permutation invariance of the declarative report, on adjacent transpositions (which generate all permutations) *)
Swap(s, j) == [x \in 1..Len(s) |-> IF x = j THEN s[j + 1] ELSE IF x = j + 1 THEN s[j] ELSE s[x]]
SameReport(A, B) == /\ A.total = B.total /\ A.primary = B.primary /\ A.secondary = B.secondary /\ A.reads = B.reads
                    /\ A.bases = B.bases /\ DOMAIN A.ident = DOMAIN B.ident
                    /\ \A n \in DOMAIN A.ident : SameFrac(A.ident[n], B.ident[n]) /\ SameFrac(A.ratio[n], B.ratio[n])
                    /\ A.del = B.del /\ A.ins = B.ins /\ A.sub = B.sub /\ A.mat = B.mat /\ A.perfect = B.perfect
                    /\ A.bigdel = B.bigdel /\ A.bigins = B.bigins /\ A.bigsub = B.bigsub /\ A.bigmat = B.bigmat
PermutationInvariant == k = 0 => \A j \in 1..(Len(input) - 1) : SameReport(Report(F), Report(Swap(F, j)))
=============================================================================
