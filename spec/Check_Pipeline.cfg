SPECIFICATION CSpec
CONSTANTS MaxDepth = 0  Resort = "append"  MaxLen = 0
POSTCONDITION AllConsumed
CHECK_DEADLOCK FALSE
