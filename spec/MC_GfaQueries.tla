---- MODULE MC_GfaQueries ----
EXTENDS GfaQueries
NoTags == {<<>>}
OneTag == {<<>>, <<"xa:i:1">>}
Both == {"+", "-"}
Plus == {"+"}
====
