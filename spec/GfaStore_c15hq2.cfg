SPECIFICATION Spec
CONSTANTS Ids = {1, 2, 3}  Ovs = {0}  TagVals <- NoTags  Signs <- Plus  Simple = FALSE  MaxLinks = 2  MaxDels = 1
INVARIANT Symmetric
INVARIANT NoDangling
PROPERTY DelForgets
CHECK_DEADLOCK FALSE
