SPECIFICATION Spec
CONSTANTS Ids = {1, 2}  Ovs = {0}  TagVals <- OneTag  Signs <- Both  Simple = FALSE  MaxLinks = 2  MaxDels = 1
INVARIANT Symmetric
INVARIANT NoDangling
INVARIANT TagsOfLinks
PROPERTY DelForgets
CHECK_DEADLOCK FALSE
