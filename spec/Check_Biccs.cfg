SPECIFICATION CSpec
CONSTANTS Ids = {}  Signs = {}  MaxLinks = 0
POSTCONDITION AllConsumed
CHECK_DEADLOCK FALSE
