---- MODULE CoordsProto ----
EXTENDS Naturals, Integers, Sequences, FiniteSets, TLC, TLCExt, Json, IOUtils, SequencesExt, Functions
Cases == ndJsonDeserialize(IOEnv.CASES)
VARIABLE i
\* c.segs : [node |-> [sn, so, ln]]   record: [strand, path, plen, ps, pe, cigar]
\* step kinds: [k|->"node", o, id]  [k|->"iv", o, ctg, a, b]  [k|->"ctg", ctg]
Flip(s) == IF s = "+" THEN "-" ELSE "+"
Rev(seq) == [k \in 1..Len(seq) |-> seq[Len(seq) + 1 - k]]
FlipSeq(seq) == [k \in 1..Len(seq) |-> <<seq[Len(seq) + 1 - k][1], seq[Len(seq) + 1 - k][2], Flip(seq[Len(seq) + 1 - k][3])>>]
NodeAt(segs, ctg, p) == CHOOSE n \in DOMAIN segs : segs[n].sn = ctg /\ segs[n].so <= p /\ p < segs[n].so + segs[n].ln
Covered(segs, ctg, a, b) == \A p \in a..(b-1) : \E n \in DOMAIN segs : segs[n].sn = ctg /\ segs[n].so <= p /\ p < segs[n].so + segs[n].ln
FwdIv(segs, ctg, a, b) == [k \in 1..(b - a) |-> LET p == a + k - 1  n == NodeAt(segs, ctg, p) IN <<n, p - segs[n].so, "+">>]
StepPos(segs, st) ==
  IF st.k = "node" THEN LET L == segs[st.id].ln IN
        IF st.o = ">" THEN [k \in 1..L |-> <<st.id, k - 1, "+">>] ELSE [k \in 1..L |-> <<st.id, L - k, "-">>]
  ELSE IF st.o = ">" THEN FwdIv(segs, st.ctg, st.a, st.b) ELSE FlipSeq(FwdIv(segs, st.ctg, st.a, st.b))
StepLen(segs, st) == IF st.k = "node" THEN segs[st.id].ln ELSE st.b - st.a
RECURSIVE Concat(_, _)
Concat(segs, p) == IF p = <<>> THEN <<>> ELSE StepPos(segs, Head(p)) \o Concat(segs, Tail(p))
RECURSIVE SumLen(_, _)
SumLen(segs, p) == IF p = <<>> THEN 0 ELSE StepLen(segs, Head(p)) + SumLen(segs, Tail(p))
ContigLen(segs, ctg) == LET S == {n \in DOMAIN segs : segs[n].sn = ctg} IN
   IF S = {} THEN 0 - 1 ELSE (CHOOSE m \in {segs[n].so + segs[n].ln : n \in S} : \A n \in S : segs[n].so + segs[n].ln <= m)   \* rank-0: tiled from 0
IsBare(r) == Len(r.path) = 1 /\ r.path[1].k = "ctg"
WellFormed(segs, r) ==
  IF IsBare(r) THEN r.ps <= r.pe /\ r.pe <= ContigLen(segs, r.path[1].ctg) /\ Covered(segs, r.path[1].ctg, r.ps, r.pe)
  ELSE /\ \A k \in 1..Len(r.path) : IF r.path[k].k = "node" THEN r.path[k].id \in DOMAIN segs
                                     ELSE r.path[k].k = "iv" /\ r.path[k].a < r.path[k].b /\ Covered(segs, r.path[k].ctg, r.path[k].a, r.path[k].b)
       /\ r.ps <= r.pe /\ r.pe <= SumLen(segs, r.path)
Denote(segs, r) ==
  LET fwd == IF IsBare(r) THEN FwdIv(segs, r.path[1].ctg, r.ps, r.pe)
             ELSE SubSeq(Concat(segs, r.path), r.ps + 1, r.pe)
  IN IF r.strand = "+" THEN fwd ELSE FlipSeq(fwd)
CigarRO(r) == IF r.strand = "+" THEN r.cigar ELSE Rev(r.cigar)
PathLenOK(segs, r) == r.plen = (IF IsBare(r) THEN ContigLen(segs, r.path[1].ctg) ELSE SumLen(segs, r.path))
Verdict(c) ==
  IF ~WellFormed(c.segs, c.out) THEN "out_malformed"
  ELSE IF Denote(c.segs, c.out) # Denote(c.segs, c.in) THEN "locus"
  ELSE IF CigarRO(c.out) # CigarRO(c.in) THEN "cigar"
  ELSE IF ~PathLenOK(c.segs, c.out) THEN "pathlen"
  ELSE "ok"
Init == i = 1
Next == /\ i <= Len(Cases)
        /\ LET v == Verdict(Cases[i]) IN (v # "ok" => PrintT(<<"VERDICT", Cases[i].id, v>>))
        /\ i' = i + 1
Spec == Init /\ [][Next]_i
AllConsumed == TLCGet("stats").diameter - 1 = Len(Cases)
====
