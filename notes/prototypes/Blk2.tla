---- MODULE Blk2 ----
EXTENDS Naturals, Sequences, FiniteSets, TLC, FiniteSetsExt
CONSTANT N, CrossCheck
VARIABLE E
Nodes == 1..N
Pairs == {{a, b} : a, b \in Nodes} \ {{a} : a \in Nodes}
RECURSIVE ReachFrom(_, _, _, _)
ReachFrom(front, seen, S, Ed) ==
  LET nxt == {m \in S \ seen : \E n \in front : {n, m} \in Ed}
  IN IF nxt = {} THEN seen ELSE ReachFrom(nxt, seen \cup nxt, S, Ed)
Reach(s, S, Ed) == ReachFrom({s}, {s}, S, Ed)
RECURSIVE CompsOf(_, _)
CompsOf(S, Ed) == IF S = {} THEN {} ELSE LET s == CHOOSE x \in S : TRUE  K == Reach(s, S, Ed) IN {K} \cup CompsOf(S \ K, Ed)
Connected(S, Ed) == Cardinality(CompsOf(S, Ed)) <= 1
\* memoised pairwise definition, C a connected node set
Decomp(C, Ed) ==
  LET comp == [c \in C |-> CompsOf(C \ {c}, Ed)]
      Together(a, b, c) == \E K \in comp[c] : a \in K /\ b \in K
      Sim(a, b) == a # b /\ \A c \in C \ {a, b} : Together(a, b, c)
      simset == [a \in C |-> {b \in C : Sim(a, b)}]
      blocks == {({a, b} \cup (simset[a] \cap simset[b])) : a \in C, b \in C} \ {S \in SUBSET C : FALSE}
  IN [blocks |-> {({p[1], p[2]} \cup (simset[p[1]] \cap simset[p[2]])) : p \in {q \in C \X C : q[1] < q[2] /\ q[2] \in simset[q[1]]}},
      artic  |-> {c \in C : Cardinality(comp[c]) > 1}]
Bicon(S, Ed) == /\ Cardinality(S) >= 2 /\ Connected(S, Ed)
                /\ (Cardinality(S) = 2 => S \in Ed)
                /\ (Cardinality(S) > 2 => \A v \in S : Connected(S \ {v}, Ed))
BlocksS(C, Ed) == LET B == {S \in SUBSET C : Bicon(S, Ed)} IN {S \in B : ~\E T \in B : S # T /\ S \subseteq T}
Init == E = {}
Next == \E p \in Pairs \ E : E' = E \cup {p}
Spec == Init /\ [][Next]_E
Agree == Connected(Nodes, E) =>
   LET d == Decomp(Nodes, E) IN
     /\ \A e \in E : Cardinality({B \in d.blocks : e \subseteq B}) = 1
     /\ (CrossCheck => d.blocks = BlocksS(Nodes, E))
====
