SPECIFICATION Spec
CONSTANT N = 6
CONSTANT CrossCheck = FALSE
INVARIANT Agree
CHECK_DEADLOCK FALSE
