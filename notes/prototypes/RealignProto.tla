---- MODULE RealignProto ----
EXTENDS Naturals, Sequences, FiniteSets, TLC, SequencesExt
CONSTANTS G, W, K, Cap, MaxFaults, Fixed
Workers == 1..W
Rec(g, w, k) == ((g - 1) * W + (w - 1)) * K + k      \* input-order priority, 1-based; 0 = sentinel
AllRecs == 1..(G * W * K)
VARIABLES grp, wpc, wnext, buf, pipe, ppc, last, nsent, pq, out, faults
vars == <<grp, wpc, wnext, buf, pipe, ppc, last, nsent, pq, out, faults>>
Alive(w) == wpc[w] \in {"run", "done"}
Init == /\ grp = 1 /\ wpc = [w \in Workers |-> "new"] /\ wnext = [w \in Workers |-> 0]
        /\ buf = [w \in Workers |-> <<>>] /\ pipe = <<>> /\ ppc = "start" /\ last = 0 - 1
        /\ nsent = 0 /\ pq = {} /\ out = <<>> /\ faults = 0
\* ---- workers
WPut(w) == /\ wpc[w] = "run" /\ wnext[w] < K
           /\ buf' = [buf EXCEPT ![w] = Append(@, Rec(grp, w, wnext[w] + 1))]
           /\ wnext' = [wnext EXCEPT ![w] = @ + 1]
           /\ UNCHANGED <<grp, wpc, pipe, ppc, last, nsent, pq, out, faults>>
WSentinel(w) == /\ wpc[w] = "run" /\ wnext[w] = K
                /\ buf' = [buf EXCEPT ![w] = Append(@, 0)]
                /\ wpc' = [wpc EXCEPT ![w] = "done"]
                /\ UNCHANGED <<grp, wnext, pipe, ppc, last, nsent, pq, out, faults>>
WFlush(w) == /\ Alive(w) /\ buf[w] # <<>> /\ Len(pipe) < Cap
             /\ pipe' = Append(pipe, Head(buf[w]))
             /\ buf' = [buf EXCEPT ![w] = Tail(@)]
             /\ UNCHANGED <<grp, wpc, wnext, ppc, last, nsent, pq, out, faults>>
WExit(w) == /\ wpc[w] = "done" /\ buf[w] = <<>>
            /\ wpc' = [wpc EXCEPT ![w] = "exited"]
            /\ UNCHANGED <<grp, wnext, buf, pipe, ppc, last, nsent, pq, out, faults>>
WDie(w) == /\ Alive(w) /\ faults < MaxFaults
           /\ wpc' = [wpc EXCEPT ![w] = "dead"]
           /\ buf' = [buf EXCEPT ![w] = <<>>]
           /\ faults' = faults + 1
           /\ UNCHANGED <<grp, wnext, pipe, ppc, last, nsent, pq, out>>
\* ---- parent
PStart == /\ ppc = "start"
          /\ wpc' = [w \in Workers |-> "run"] /\ nsent' = 0 /\ ppc' = "loop"
          /\ UNCHANGED <<grp, wnext, buf, pipe, last, pq, out, faults>>
PLoop == /\ ppc = "loop"
         /\ ppc' = IF nsent # W THEN "get" ELSE "join"
         /\ UNCHANGED <<grp, wpc, wnext, buf, pipe, last, nsent, pq, out, faults>>
PGetItem == /\ ppc = "get" /\ pipe # <<>>
            /\ last' = Head(pipe) /\ pipe' = Tail(pipe) /\ ppc' = "handle"
            /\ UNCHANGED <<grp, wpc, wnext, buf, nsent, pq, out, faults>>
PTimeout == /\ ppc = "get" /\ pipe = <<>>
            /\ ppc' = "alive"
            /\ UNCHANGED <<grp, wpc, wnext, buf, pipe, last, nsent, pq, out, faults>>
PAlive == /\ ppc = "alive"
          /\ ppc' = IF \E w \in Workers : Alive(w) THEN "loop" ELSE "exitchk"
          /\ UNCHANGED <<grp, wpc, wnext, buf, pipe, last, nsent, pq, out, faults>>
PExitChk == /\ ppc = "exitchk"
            /\ ppc' = IF \E w \in Workers : wpc[w] = "dead" THEN "aborted"
                      ELSE IF Fixed THEN "loop"
                      ELSE IF last = 0 - 1 THEN "crashed" ELSE "handle"
            /\ UNCHANGED <<grp, wpc, wnext, buf, pipe, last, nsent, pq, out, faults>>
PHandle == /\ ppc = "handle"
           /\ IF last = 0 THEN nsent' = nsent + 1 /\ pq' = pq
                          ELSE nsent' = nsent /\ pq' = pq \cup {<<last, Cardinality({x \in pq : x[1] = last}) + 1>>}
           /\ ppc' = "loop"
           /\ UNCHANGED <<grp, wpc, wnext, buf, pipe, last, out, faults>>
PJoin == /\ ppc = "join" /\ \A w \in Workers : ~Alive(w)
         /\ ppc' = "drain"
         /\ UNCHANGED <<grp, wpc, wnext, buf, pipe, last, nsent, pq, out, faults>>
SortedPQ == SortSeq(SetToSeq(pq), LAMBDA a, b : a[1] < b[1] \/ (a[1] = b[1] /\ a[2] < b[2]))
PDrain == /\ ppc = "drain"
          /\ out' = out \o [i \in 1..Cardinality(pq) |-> SortedPQ[i][1]]
          /\ pq' = {}
          /\ IF grp < G
               THEN /\ grp' = grp + 1 /\ ppc' = "start" /\ pipe' = <<>>
                    /\ wpc' = [w \in Workers |-> "new"] /\ wnext' = [w \in Workers |-> 0]
                    /\ buf' = [w \in Workers |-> <<>>]
               ELSE /\ ppc' = "finished" /\ UNCHANGED <<grp, pipe, wpc, wnext, buf>>
          /\ UNCHANGED <<last, nsent, faults>>
Next == \/ \E w \in Workers : WPut(w) \/ WSentinel(w) \/ WFlush(w) \/ WExit(w) \/ WDie(w)
        \/ PStart \/ PLoop \/ PGetItem \/ PTimeout \/ PAlive \/ PExitChk \/ PHandle \/ PJoin \/ PDrain
Fair == /\ \A w \in Workers : WF_vars(WPut(w)) /\ WF_vars(WSentinel(w)) /\ WF_vars(WFlush(w)) /\ WF_vars(WExit(w))
        /\ WF_vars(PStart \/ PLoop \/ PGetItem \/ PTimeout \/ PAlive \/ PExitChk \/ PHandle \/ PJoin \/ PDrain)
Spec == Init /\ [][Next]_vars /\ Fair
\* ---- properties
Ident(n) == [i \in 1..n |-> i]
NoCrash == ppc # "crashed"
FinishedComplete == ppc = "finished" => out = Ident(G * W * K)
OutPrefix == \E n \in 0..(G * W * K) : out = Ident(n)
LostWorker(w) == wpc[w] = "dead" /\ (wnext[w] < K \/ TRUE)
AbortOnly == ppc = "aborted" => faults > 0
Terminates == <>(ppc \in {"finished", "aborted", "crashed"})
NoSuccessAfterLoss == [](ppc = "finished" => out = Ident(G * W * K))
====
