import random, json, re, logging, sys, os
logging.disable(logging.CRITICAL)
from gaftools.cli.view import run as view
d='/tmp/tlaexp/co'; rnd=random.Random(int(sys.argv[1]) if len(sys.argv)>1 else 1)
def mkgraph():
    segs={}; k=0
    nref=rnd.randint(1,5); so=0
    for _ in range(nref):
        k+=1; ln=rnd.randint(1,4); segs[f"s{k}"]=dict(sn="chr1",so=so,ln=ln,sr=0); so+=ln
    pos=100
    for _ in range(rnd.randint(0,3)):
        k+=1; ln=rnd.randint(1,3); segs[f"s{k}"]=dict(sn="hapA",so=pos,ln=ln,sr=1); pos+=ln+rnd.choice([0,0,5])
    return segs
def parse_path(p):
    if not re.search("[<>]",p): return [dict(k="ctg",ctg=p)]
    out=[]
    for o,body in re.findall(r"([<>])([^<>]+)",p):
        m=re.fullmatch(r"(.+):(\d+)-(\d+)",body)
        out.append(dict(k="iv",o=o,ctg=m.group(1),a=int(m.group(2)),b=int(m.group(3))) if m else dict(k="node",o=o,id=body))
    return out
def parse_rec(line):
    f=line.rstrip("\n").split("\t"); cg=[t for t in f[12:] if t.startswith("cg:Z:")]
    cig=[[int(a),b] for a,b in re.findall(r"(\d+)([=XIDM])",cg[0][5:])] if cg else []
    return dict(strand=f[4],path=parse_path(f[5]),plen=int(f[6]),ps=int(f[7]),pe=int(f[8]),cigar=cig), f
cases=[]; cid=0
for g in range(60):
    segs=mkgraph(); names=list(segs)
    gfa=[f"S\t{n}\t*\tLN:i:{s['ln']}\tSN:Z:{s['sn']}\tSO:i:{s['so']}\tSR:i:{s['sr']}" for n,s in segs.items()]
    lines=[]
    for r in range(40):
        walk=[(rnd.choice("><"),rnd.choice(names)) for _ in range(rnd.randint(1,4))]
        plen=sum(segs[n]['ln'] for _,n in walk); ps=rnd.randint(0,plen-1); pe=rnd.randint(ps+1,plen)
        L=pe-ps; a=rnd.randint(0,L); cig=(f"{a}=" if a else "")+(f"{L-a}X" if L-a else "")
        lines.append(f"q{r}\t50\t0\t{L}\t+\t{''.join(o+n for o,n in walk)}\t{plen}\t{ps}\t{pe}\t{a}\t{L}\t60\ttp:A:P\tcg:Z:{cig}")
    links=set()
    open(d+'/g.gfa','w').write("\n".join(gfa)+"\n"); open(d+'/u.gaf','w').write("\n".join(lines)+"\n")
    view(d+'/u.gaf',gfa=d+'/g.gfa',output=d+'/s.gaf',format='stable')
    view(d+'/s.gaf',gfa=d+'/g.gfa',output=d+'/u2.gaf',format='unstable')
    U=open(d+'/u.gaf').read().splitlines(); S=open(d+'/s.gaf').read().splitlines(); U2=open(d+'/u2.gaf').read().splitlines()
    assert len(U)==len(S)==len(U2)
    for u,s,u2 in zip(U,S,U2):
        ru,_=parse_rec(u); rs,_=parse_rec(s); ru2,_=parse_rec(u2)
        cid+=1; cases.append(dict(id=cid,segs=segs,**{"in":ru,"out":rs}))
        cid+=1; cases.append(dict(id=cid,segs=segs,**{"in":rs,"out":ru2}))
with open(d+'/cases.ndjson','w') as f:
    for c in cases: f.write(json.dumps(c)+"\n")
print(len(cases), json.dumps(cases[0])[:400])
