import time, io, logging, sys
logging.disable(logging.CRITICAL)
import gaftools.cli.realign as R
orig_alive = R.one_is_alive; orig_wfa = R.wfa_alignment
def slow_alive(ps): time.sleep(0.6); return orig_alive(ps)     # parent descheduled between timeout and liveness check
def slow_wfa(batch, qu): time.sleep(0.2); return orig_wfa(batch, qu)  # worker busy for a while before first result
R.one_is_alive = slow_alive; R.wfa_alignment = slow_wfa
try:
    R.run_realign('tests/data/alignments-graphaligner.gaf','tests/data/smallgraph.gfa','tests/data/reads.fa','/tmp/probe/ra.out',1)
    print('finished', [l.split('\t')[0] for l in open('/tmp/probe/ra.out')])
except BaseException as e: print('EXC', type(e).__name__, e)
