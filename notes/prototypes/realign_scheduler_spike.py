import threading, queue as stdq, sys, io, logging, os, inspect
logging.disable(logging.CRITICAL)
import gaftools.cli.realign as R
SRC = inspect.getsource(R.realign_gaf)
class Kill(BaseException): pass
class World:
    def __init__(self, script):
        self.script=list(script); self.pipe=[]; self.procs=[]; self.log=[]
    def step_worker(self, p):
        p.go.set(); p.back.wait(); p.back.clear()
        if p.state=='running': p.state='blocked'
    def pump(self, call):
        """perform scripted env actions until a 'ret' marker (or script exhausted -> default policy)"""
        while self.script and self.script[0][0] in ('deliver','kill'):
            act=self.script.pop(0); p=self.procs[act[1]]
            if act[0]=='deliver' and p.state=='blocked':
                self.pipe.append(p.pending); self.log.append(('flush',act[1],None if p.pending is None else p.pending.priority))
                p.state='running'; self.step_worker(p)
            elif act[0]=='kill' and p.state in ('blocked',):
                p.killed=True; p.exitcode=-9; p.state='running'; self.step_worker(p); p.state='dead'; self.log.append(('kill',act[1]))
        if self.script and self.script[0][0]=='ret': self.script.pop(0)
class FakeQueue:
    def __init__(self,w): self.w=w
    def put(self,item):
        me=threading.current_thread().proc; me.pending=item
        me.back.set(); me.go.wait(); me.go.clear()
        if me.killed: raise Kill()
    def get(self,timeout=None):
        w=self.w
        while True:
            w.pump('get')
            if w.script and w.script[0][0]=='timeout':
                w.script.pop(0); assert not w.pipe; w.log.append(('timeout',)); raise stdq.Empty
            if w.pipe:
                it=w.pipe.pop(0); w.log.append(('get',None if it is None else it.priority)); return it
            live=[i for i,p in enumerate(w.procs) if p.state=='blocked']
            if not w.script:
                if live: w.script.append(('deliver',live[0]))
                else: w.script.append(('timeout',))
class FakeProcess:
    def __init__(self,target,args):
        self.target,self.args=target,args; self.state='new'; self.exitcode=None; self.killed=False
        self.go=threading.Event(); self.back=threading.Event(); self.pending=None; WORLD.procs.append(self)
    def _run(self):
        self.go.wait(); self.go.clear()
        try: self.target(*self.args); self.exitcode=0; self.state='exited'
        except Kill: self.state='dead'
        except BaseException: self.exitcode=1; self.state='dead'
        self.back.set()
    def start(self):
        self.th=threading.Thread(target=self._run,daemon=True); self.th.proc=self; self.th.start()
        self.state='running'; WORLD.step_worker(self); WORLD.log.append(('start',))
    def is_alive(self):
        WORLD.pump('is_alive'); a=self.state not in ('exited','dead'); WORLD.log.append(('is_alive',a)); return a
    def join(self): WORLD.log.append(('join',))
class FakeMP:
    @staticmethod
    def Queue(): return FakeQueue(WORLD)
    @staticmethod
    def Process(target,args): return FakeProcess(target,args)
    @staticmethod
    def cpu_count(): return 64
def run(script,cores,batch):
    global WORLD
    WORLD=World(script); R.mp=FakeMP
    ns=R.__dict__; exec(SRC.replace("batch_size = 1000",f"batch_size = {batch}"),ns)
    out=io.StringIO()
    try:
        ns['realign_gaf']('tests/data/alignments-graphaligner.gaf','tests/data/smallgraph.gfa','tests/data/reads.fa',out,cores); status='finished'
    except SystemExit as e: status=f'exit({e.code})'
    except BaseException as e: status=f'crash {type(e).__name__}: {e}'
    return status,[l.split('\t')[0][-6:] for l in out.getvalue().splitlines()],WORLD.log
print(1,run([],2,1))
print(2,run([('deliver',1),('deliver',1),('deliver',0),('deliver',0)],2,1))
print(3,run([('ret',),('timeout',)],2,1))
# timeout on first get, then both workers deliver everything and exit before the liveness check
print(4,run([('ret',),('timeout',),('deliver',0),('deliver',0),('deliver',1),('deliver',1)],2,1))
# get one item, then timeout, then rest delivered+exit before liveness check -> stale item duplicated?
print(5,run([('deliver',0),('ret',),('ret',),('timeout',),('deliver',0),('deliver',1),('deliver',1)],2,1))
# kill worker 1 before it delivers anything
print(6,run([('kill',1)],2,1))
