SPECIFICATION Spec
CONSTANTS G = 2 W = 2 K = 2 Cap = 2 MaxFaults = 1 Fixed = TRUE
INVARIANT NoCrash
INVARIANT FinishedComplete
INVARIANT OutPrefix
INVARIANT AbortOnly
PROPERTY Terminates
CHECK_DEADLOCK FALSE
