SPECIFICATION Spec
CONSTANTS G = 1 W = 2 K = 1 Cap = 2 MaxFaults = 0 Fixed = FALSE
INVARIANT NoCrash
INVARIANT FinishedComplete
INVARIANT OutPrefix
CHECK_DEADLOCK FALSE
