"""Run gaftools realign with REAL multiprocessing; optionally SIGKILL worker w of group g at its
k-th put (k = 0: before the first result). Used only for end-to-end observables."""
import os
import signal
import sys

gaf, gfa, fa, out, cores, kill = sys.argv[1:7]
import gaftools.cli.realign as RL

if kill:
    g, w, k = map(int, kill.split(":")[:3])
    sig = getattr(signal, kill.split(":")[3]) if kill.count(":") >= 3 else signal.SIGKILL
    orig = RL.wfa_alignment
    batch = int(os.environ["GAFTOOLS_VERIF_BATCH_SIZE"])
    C = int(cores)

    def wrapped(seq_batch, qu):
        first = seq_batch[0][3]  # priority of the first record in this batch
        b = first // batch  # 0-based batch index
        gg, ww = b // C + 1, b % C + 1

        class Q:
            n = 0

            def put(self, item):
                if (gg, ww) == (g, w) and Q.n == k:
                    # what this worker has put so far must be OUT of the process first: a process killed while its queue feeder thread
                    # is in the middle of a pipe write leaves the queue's write lock held and every sibling blocked - a hazard of
                    # multiprocessing.Queue below the model's granularity (DESIGN 7.2), not what this tier is about
                    import time as _t

                    for _ in range(1000):
                        buf = getattr(qu, "_buffer", None)
                        lock = getattr(qu, "_wlock", None)
                        if not buf:
                            if lock is None:
                                break
                            if lock.acquire(timeout=0.5):
                                lock.release()
                                break
                        _t.sleep(0.005)
                    _t.sleep(0.05)
                    open(out + ".killed", "w").close()      # the fault was really injected (a worker may send fewer messages)
                    os.kill(os.getpid(), sig)
                    if sig != signal.SIGKILL:
                        import time

                        time.sleep(5)      # a handler that swallows the signal: the worker would go on; give it time to act on it
                Q.n += 1
                qu.put(item)

        orig(seq_batch, Q())

    RL.wfa_alignment = wrapped

delay = os.environ.get("VERIF_REALMP_DELAY")
if delay:
    # widen the race window of the collector with REAL processes: every worker waits before its first result,
    # so the parent's queue read times out, and the liveness check is slow, so the workers have finished by then
    wd, pd = map(float, delay.split(":"))
    import time

    _orig_w = RL.wfa_alignment
    _orig_alive = RL.one_is_alive

    def slow_worker(seq_batch, qu):
        time.sleep(wd)
        _orig_w(seq_batch, qu)

    def slow_alive(processes):
        time.sleep(pd)
        return _orig_alive(processes)

    RL.wfa_alignment = slow_worker
    RL.one_is_alive = slow_alive

from gaftools.__main__ import main

main(["realign", gaf, gfa, fa, "-o", out, "-c", cores])
