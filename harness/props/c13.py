"""C13 - realign aborts with an error when a worker dies (never hangs, never a silent loss)."""
from props.realign_common import RN, explore_config, poison_runs, real_mp_tier


def run(ctx):
    ctx.rule = (
        "behaviours of Realign.tla with worker faults (WKill: SIGKILL-like, buffer lost; WCrash: target raises, "
        "buffer still flushed, exit code 1) at every point of a worker's batch: transition tour over every edge of "
        "TLC's state graph + random walks replayed in lock-step on the real realign_gaf, and seeded random "
        "schedules with faults validated by TLC; non-trivial = behaviour with a fault or a timeout"
    )
    both = ["kill", "crash"]
    if ctx.thorough:
        cfgs = [
            (dict(R=3, B=1, C=2, Cap=2, F=1, kinds=both), 300, 400),
            (dict(R=4, B=2, C=2, Cap=1, F=1, kinds=both), 300, 400),
            (dict(R=3, B=1, C=3, Cap=2, F=1, kinds=["kill"]), 300, 400),
            (dict(R=3, B=1, C=2, Cap=2, F=2, kinds=both), 300, 400),
            (dict(R=2, B=1, C=1, Cap=1, F=1, kinds=both), 30, 60),
        ]
    else:
        cfgs = [
            (dict(R=3, B=1, C=2, Cap=2, F=1, kinds=both), 80, 200),
            (dict(R=4, B=2, C=2, Cap=2, F=1, kinds=["kill"]), 60, 150),     # two records per worker: faults BETWEEN results
            (dict(R=2, B=1, C=1, Cap=1, F=1, kinds=both), 10, 30),
        ]
    for k, nw, ns in cfgs:
        explore_config(ctx, k, nw, ns)
    # a worker that fails because of its data (path not in the graph), at the first / a middle / the last record
    for pk in ([dict(R=4, B=2, C=2, Cap=2, poison=2), dict(R=3, B=1, C=2, Cap=2, poison=3)] if not ctx.thorough else
               [dict(R=4, B=2, C=2, Cap=2, poison=p) for p in (1, 2, 3, 4)] + [dict(R=3, B=1, C=2, Cap=1, poison=p) for p in (1, 2, 3)]):
        poison_runs(ctx, pk, 120 if ctx.thorough else 40)
    # real multiprocessing, real SIGKILL at the k-th put of worker w (trusted-base cross-check)
    # (a 4th component names another signal: SIGTERM is what `kill`, systemd and batch systems send first)
    points = [(1, 1, 0), (1, 2, 1), (1, 1, 2), (2, 1, 1), (1, 2, 1, "SIGTERM")] if not ctx.thorough else [(1, 1, 1, "SIGTERM"), (2, 1, 0, "SIGTERM"), (1, 2, 2, "SIGHUP")] + [
        (g, w, k) for g in (1, 2) for w in (1, 2) for k in (0, 1, 2) if not (g == 2 and (w == 2 or k == 2))
    ]
    real = []

    for kill_at in points:
        rc, hung, names = real_mp_tier(ctx, 5, 2, 2, kill_at)
        if hung:      # a hang must reproduce: the run is made once more before it is called one
            rc, hung, names = real_mp_tier(ctx, 5, 2, 2, kill_at)
        killed = real_mp_tier.killed
        real.append({"kill_at(group,worker,put#)": kill_at, "killed": killed, "rc": rc, "hung": hung, "written": names})
        ctx.evaluations += 1
        full = names == [RN(i) for i in range(1, 6)]
        if hung:
            ctx.violation("realmp_hang", real[-1])
        elif rc == 0 and not full:
            ctx.violation("realmp_success_with_missing_records", real[-1])
        elif rc == 0 and killed:
            # the worker was really killed, at one of its own puts (a result or its end-of-batch marker): IN its batch
            ctx.violation("realmp_success_although_a_worker_was_killed_in_its_batch", real[-1])
        elif rc not in (0, 1):
            ctx.violation("realmp_unexpected_exit", real[-1])
        ctx.nontrivial.add(("realmp", kill_at))
    ctx.notes["real_multiprocessing_runs"] = real
    ctx.exhaustive = True
    ctx.assumptions += [
        "death in the middle of a pipe write (partial message) is below the model's granularity (DESIGN 7.2)",
        "a worker that dies after its sentinel reached the parent is indistinguishable from a normal exit for the output; only a complete output is required then (DESIGN 7.3)",
    ]
