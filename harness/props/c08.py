"""C08 - gaftools sort (see DESIGN.md section 5)."""
from props.sort_common import run_mode, tlaps_order_lemmas


def run(ctx):
    ctx.rule = (
        "TLC enumerates every file (sequence of <=2 quick / <=3 thorough records over a 17-record pool of key classes: "
        "equal BO different NO, equal BO+NO different start, exact ties with different sn/iv, untagged anchors, "
        "majority-reversed walks, inversions) and checks Less is a strict total order; gaftools sort runs on each file "
        "(plain/BGZF input, plain/--bgzip output, --outind) plus seeded random longer files; TLC (Check_Sort) decides; "
        "non-trivial = file with >= 2 records"
    )
    tlaps_order_lemmas(ctx)
    run_mode(ctx, "C08")
