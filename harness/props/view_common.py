"""Shared driver for C03 (index), C04 (view --node), C05 (view --region)."""
import os
import random
import shutil
import tempfile
import zlib

from engine import gen_states, pool_map
from props.coords_common import segs_of, cigar_for, nid
from readers import zname, read_out, join_lines, gaf_record, line_at, load_pickle, read_text, run_cli, write_text, workdir, lines_of


def gfa_text(segs, links):
    lines = []
    # segment lines are deliberately NOT in offset order (a contig inserted in reverse has descending SO in real rGFAs)
    for n, s in sorted(segs.items(), key=lambda kv: (-kv[1]["so"], kv[0])):
        seq = "".join("ACGT"[(5 * i + len(n) + s["so"]) % 4] for i in range(s["ln"]))
        lines.append(f"S\t{n}\t{seq}\tLN:i:{s['ln']}\tSN:Z:{s['sn']}\tSO:i:{s['so']}\tSR:i:{s['sr']}")
    for l in links:
        ends = [list(e) for e in l["ends"]]
        if len(ends) == 1:
            ends = ends * 2
        # pick the declaration whose first end is left through: side 1 = '+', side 0 = '-'
        (a, sa), (b, sb) = ends
        lines.append(f"L\t{nid(a)}\t{'+' if sa == 1 else '-'}\t{nid(b)}\t{'+' if sb == 0 else '-'}\t{l['ov']}M")
    return "\n".join(lines) + "\n"


def make_records(segs, walks, rnd, blank_names=False):
    lines = []
    for wi, w in enumerate(sorted(map(lambda w: [tuple(x) for x in w], walks))):
        plen = sum(segs[nid(k)]["ln"] for _, k in w)
        path = "".join(f"{o}{nid(k)}" for o, k in w)
        spans = [(0, plen)]
        if plen >= 3:
            spans.append((1, plen - 1))
        for ps, pe in spans:
            L = pe - ps
            cg, a = cigar_for(L)
            # every third walk's reads carry a non-ASCII character in the name, every third an extra Z field with one:
            # byte offsets and character offsets of the following records then differ
            uni = "\u00e9" if wi % 3 == 1 else ""
            tail = "\tzd:Z:a\u00f1b" if wi % 3 == 2 else ("\tzl:Z:x\u2028y\x1cz" if wi % 7 == 3 else "")      # (line-boundary look-alikes are data)
            pre = ["q", "q", "@q", "#q", "7"][wi % 5]          # read names are free text (FASTQ-style '@', '#', leading digit)
            if blank_names and wi % 4 == 1:                     # GraphAligner keeps the FASTQ comment: a blank inside column 1
                pre = pre + f"{wi}x ch=5 "                      # (re-emitting commands cut the name at the blank: the part before it is unique)
            nm = f"{pre}{wi}{uni}_{ps}_{pe}"
            if wi % 6 == 5:      # several alignments of ONE read (same name, other intervals / walks): names do not identify records
                nm = "multi_read"
            cgf = f"\tcg:Z:{cg}" if (wi + ps) % 4 else ""      # the CIGAR is optional: a quarter of the records have none
            lines.append(f"{nm}\t{L + 2}\t1\t{L + 1}\t+\t{path}\t{plen}\t{ps}\t{pe}\t{a}\t{L}\t{(ps * 7 + pe) % 61}\ttp:A:P{cgf}\tNM:i:3{tail}")
    rnd.shuffle(lines)
    # several alignments of ONE read on ONE walk stand on consecutive lines (split alignments are reported together)
    multi = [l for l in lines if l.startswith("multi_read\t")]
    lines = [l for l in lines if not l.startswith("multi_read\t")] + sorted(multi, key=lambda l: l.split("\t")[5])
    return lines


def abstract(line):
    r = gaf_record(line)
    return {"name": r["name"], "strand": r["strand"], "path": r["path"], "ps": r["ps"], "pe": r["pe"]}


def positions(out_text, ref_lines):
    idx = {}
    for k, l in enumerate(ref_lines):
        idx.setdefault(l, k + 1)
        name, tab, rest = l.partition("\t")
        if " " in name:      # documented: a re-emitted record carries the read name cut at its first blank
            idx.setdefault(name.split(" ")[0] + tab + rest, k + 1)
    return [idx.get(l, 0) for l in lines_of(out_text)]


def index_projection(gvi, gaf, lines, bgzf):
    from gaftools.gaf import GAF

    ind = load_pickle(gvi)
    where = {l: k + 1 for k, l in enumerate(lines)}
    reader = GAF(gaf)
    out = []
    refctg = None
    try:
        for key, offs in ind.items():
            if key == "ref_contig":
                refctg = list(offs)
                continue
            recs = []
            ok = True
            for off in offs:
                try:
                    l = line_at(gaf, off, bgzf)
                except Exception:  # noqa
                    l = None
                k = where.get(l, 0)
                recs.append(k)
                if k:
                    try:
                        a = reader.read_line(off)
                        f = l.split("\t")
                        ok = ok and a is not None and a.query_name == f[0].split(" ")[0] and a.path == f[5] and a.path_start == int(f[7])      # (the parser cuts the name at the first blank)
                    except Exception:  # noqa
                        ok = False
            out.append({"node": key[0], "key": list(key), "recs": recs, "readline_ok": ok})
    finally:
        reader.close()
    return out, refctg


def run_session(job):
    sid, st, mode, storage, gfa_gz, seed, opts = job
    import readers as _rd

    _rd.CASE = str(sid)
    rnd = random.Random(seed)
    d = workdir("view_", sid)
    bgzf = storage == "bgzf"
    try:
        segs = segs_of(st["ref"], [tuple(h) for h in st["hap"]], base=opts.get("hapbase", 1))
        # contig names are free text too: in three sessions of four the non-reference contig is called "e", "ref_contig" (the
        # name of the extra key the index carries) or "1"
        # ... or like an HLA allele / a region-style name, with colons in it
        # (not in the region check: a name with ':' cannot be addressed by the contig:start-end syntax of --region)
        altname = [None, "e", "ref_contig", "1", "HLA-A*01:01:01" if mode != "C05" else "HLA-A*01"][zlib.crc32(("ctg" + sid).encode()) % 5]
        if altname:
            for g_ in segs.values():
                if g_["sr"] != 0:
                    g_["sn"] = altname
        # one session in three has an assembly-prefixed reference name with a hyphen in it
        if zlib.crc32(("ref" + sid).encode()) % 3 == 1:
            for g_ in segs.values():
                if g_["sr"] == 0:
                    g_["sn"] = "GRCh38-chr1"
        scale = opts.get("scale", 1)
        if scale > 1:       # the same session on a larger scale: coordinates with different numbers of digits
            for g in segs.values():
                g["so"] *= scale
                g["ln"] *= scale
        gfa = os.path.join(d, "g.gfa" + (".gz" if gfa_gz else ""))
        write_text(gfa, gfa_text(segs, st["links"]), "gz" if gfa_gz else "plain")
        ulines = make_records(segs, st["walks"], rnd, blank_names=True)
        rep = opts.get("repeat", 1)
        if rep > 1:       # the same alignments thousands of times (other reads): selections of more than 10,000 records
            ulines = [f"c{j}_" + l for j in range(rep) for l in ulines]
        if ulines and zlib.crc32(("long" + sid).encode()) % 5 == 0 and rep == 1:
            # one record longer than 64 KiB (a noisy long read with a huge CIGAR-like field): lines have no maximal length
            f0 = ulines[0].split("\t")
            ulines.insert(1, "\t".join(["long" + f0[0]] + f0[1:] + ["zz:Z:" + "p" * 70000, "zy:i:7"]))      # (second line: the records behind it start beyond 64 KiB)
        ext = zname("", sid) if bgzf else ""
        U = os.path.join(d, "u.gaf" + ext)
        if zlib.crc32(("lnk" + sid).encode()) % 4 == 2:
            # the GAF named on the command line is a symbolic link to the file (kept elsewhere under another name): indexes
            # and other derived files belong next to the NAME the user gave
            os.makedirs(os.path.join(d, "store"), exist_ok=True)
            real = os.path.join(d, "store", "run42.alignments" + ext)
            write_text(real, join_lines(ulines, sid), storage, block=opts.get("block", 300))
            os.symlink(real, U)
        else:
            write_text(U, join_lines(ulines, sid), storage, block=opts.get("block", 300))
        cases = []
        # whole-file conversions (also the reference for --format selections)
        cs = os.path.join(d, "conv_s.gaf")
        r = run_cli(["view", U, "-g", gfa, "-f", "stable", "-o", cs])
        slines = lines_of(read_out(cs)) if r["status"] == "ok" else None
        files = [("unstable", U, ulines)]
        if slines is not None and len(slines) == len(ulines):
            S = os.path.join(d, "s.gaf" + ext)
            write_text(S, join_lines(slines, sid), storage, block=opts.get("block", 300))
            files.append(("stable", S, slines))
        for fmt, F, lines in files:
            other = "stable" if fmt == "unstable" else "unstable"
            conv = slines if fmt == "unstable" else None
            if fmt == "stable":
                cu = os.path.join(d, "conv_u.gaf")
                r = run_cli(["view", F, "-g", gfa, "-f", "unstable", "-o", cu])
                conv = lines_of(read_out(cu)) if r["status"] == "ok" else None
            c = {"id": f"{sid}.{fmt}", "mode": mode, "truncated": False, "sampled": scale > 1 or rep > 1 or bool(opts.get("wide")), "singles_only": rep > 1, "segs": segs, "file": [abstract(l) for l in lines], "fmt": fmt,
                 "storage": storage, "gfa_gz": gfa_gz, "session": {k: st[k] for k in ("ref", "hap", "extra", "avoid")}}
            gvi = F + ".gvi"
            r = run_cli(["index", F, gfa])
            c["index_status"] = "ok" if r["status"] == "ok" and os.path.exists(gvi) else (r["status"] + ":" + r["exc"][:60])
            if mode == "C03":
                c["idx"], c["refctg"] = ([], None)
                if c["index_status"] == "ok" and zlib.crc32(("oidx" + c["id"]).encode()) % 3 == 0:
                    # the index asked for at a place and under a name of the user's choice (-o): that file, as named, is the index
                    gvi = os.path.join(d, "idx_" + fmt + "_" + ["my.index", "reads_idx", "out.gvi.v2"][zlib.crc32(c["id"].encode()) % 3])
                    r = run_cli(["index", F, gfa, "-o", gvi])
                    c["index_status"] = "ok" if r["status"] == "ok" and os.path.exists(gvi) else ("index_not_written_where_o_says:" + r["status"] + ":" + r["exc"][:40])
                if c["index_status"] == "ok":
                    c["idx"], c["refctg"] = index_projection(gvi, F, lines, bgzf)
            elif c["index_status"] == "ok":
                o = os.path.join(d, "out.gaf")
                iargs = []
                if zlib.crc32(f"{sid}.{fmt}".encode()) % 3 == 0 and len(lines) > 1:
                    # the index is asked for at another place (index -o / view -i) while the default location holds a STALE
                    # one (made for the same records in reverse order): the index named on the command line must be used
                    alt = os.path.join(d, "idx_" + fmt, ["other.name.gvi", "reads.index", "idx"][zlib.crc32(("alt" + sid).encode()) % 3])      # any name the user likes
                    os.makedirs(os.path.dirname(alt), exist_ok=True)
                    r2 = run_cli(["index", F, gfa, "-o", alt])
                    rev = os.path.join(d, "rev_" + fmt + ".gaf")
                    write_text(rev, "\n".join(reversed(lines)) + "\n")
                    r3 = run_cli(["index", rev, gfa, "-o", gvi])
                    if r2["status"] == "ok" and r3["status"] == "ok" and os.path.exists(alt):
                        iargs = ["-i", alt]
                    else:
                        run_cli(["index", F, gfa])

                def view(args, ref):
                    if os.path.exists(o):
                        os.unlink(o)
                    r = run_cli(["view", F, "-o", o] + iargs + args, timeout=1.5 if rep == 1 else 60)
                    if r["status"] == "timeout":  # a loaded machine must not look like non-termination: ask again, patiently
                        if os.path.exists(o):
                            os.unlink(o)
                        r = run_cli(["view", F, "-o", o] + iargs + args, timeout=8)
                    txt = read_out(o) if os.path.exists(o) else ""
                    return r["status"], positions(txt, ref or [])

                names = list(segs)
                if mode == "C04":
                    stt, pos = view([], lines)
                    c["cat_status"], c["cat_pos"] = stt, pos
                    qs = []
                    for ns in [[n] for n in names] + ([[n, m] for n in names for m in names] if rep == 1 else []):
                        args = [x for n in ns for x in ("-n", n)]
                        stt, pos = view(args, lines)
                        qs.append({"ns": ns, "fmt": "", "status": stt, "pos": pos})
                    c["queries"] = qs
                    # with --format: single nodes and a few pairs; reference = whole-file conversion
                    fq = []
                    if conv is not None and len(conv) == len(lines):
                        for ns in [[n] for n in names] + [rnd.sample(names, 2) for _ in range(3) if len(names) >= 2]:
                            args = [x for n in ns for x in ("-n", n)] + ["-g", gfa, "-f", other]
                            stt, pos = view(args, conv)
                            fq.append({"ns": ns, "fmt": other, "status": stt, "pos": pos})
                    else:
                        fq.append({"ns": [names[0]], "fmt": other, "status": "exception", "pos": []})
                    c["fqueries"] = fq
                else:
                    ctgs = sorted({s["sn"] for s in segs.values()})
                    clen = {g: max(s["so"] + s["ln"] for s in segs.values() if s["sn"] == g) for g in ctgs}
                    if opts.get("wide"):   # a long chain: regions that span 49 / 50 / 51 / all indexed nodes, and a few short ones
                        L_, n_ = opts["wide"]
                        regs = [{"ctg": "chr1" if "chr1" in ctgs else ctgs[0], "a": a, "b": b} for a, b in
                                [(0, clen[ctgs[0]] - 1), (0, 49 * L_ - 1), (0, 50 * L_ - 1), (0, 50 * L_), (1, 51 * L_), (L_, 52 * L_ - 1), ((n_ - 51) * L_, n_ * L_ - 1),
                                 ((n_ - 50) * L_, n_ * L_ - 1), (L_ - 1, L_), (5 * L_, 5 * L_), (0, 0), (7 * L_ + 1, 30 * L_), (2 * L_, 56 * L_ + 1)]]
                    elif scale > 1:   # regions around every node boundary instead of all of them
                        regs = []
                        for g in ctgs:
                            pts = sorted({p for s_ in segs.values() if s_["sn"] == g for p in (s_["so"] - 1, s_["so"], s_["so"] + 1, s_["so"] + s_["ln"] - 1, s_["so"] + s_["ln"]) if 0 <= p < clen[g]} | {0, 2, 9, 10, clen[g] - 1})
                            pts = [p for p in pts if 0 <= p < clen[g]]
                            regs += [{"ctg": g, "a": a, "b": b} for a in pts for b in pts if a <= b]
                    else:
                        regs = [{"ctg": g, "a": a, "b": b} for g in ctgs for a in range(clen[g]) for b in range(a, clen[g])]
                    qs = []
                    ntimeouts = 0
                    flagdir = opts.get("flagdir")
                    regs_to_run = regs
                    if flagdir and len(os.listdir(flagdir)) >= 6:
                        # non-termination has been established on six other sessions already; do not wait for more
                        c["truncated"] = True
                        regs_to_run = []
                    for g in regs_to_run:
                        stt, pos = view(["-r", f"{g['ctg']}:{g['a']}-{g['b']}"], lines)
                        qs.append({"regs": [g], "fmt": "", "status": stt, "pos": pos})
                        ntimeouts += stt == "timeout"
                        if ntimeouts >= 2:  # non-termination is already a verdict; do not wait for the rest
                            c["truncated"] = True
                            if flagdir:
                                open(os.path.join(flagdir, f"{sid}_{fmt}"), "w").close()
                            break
                    for _ in range(0 if c.get("truncated") else opts.get("pairs", 8)):
                        pr = [rnd.choice(regs), rnd.choice(regs)]
                        stt, pos = view([x for g in pr for x in ("-r", f"{g['ctg']}:{g['a']}-{g['b']}")], lines)
                        qs.append({"regs": pr, "fmt": "", "status": stt, "pos": pos})
                    for _ in range(0 if c.get("truncated") else 3):      # the same region twice, then (or between) other ones
                        a_, b_ = rnd.choice(regs), rnd.choice(regs)
                        pr = rnd.choice([[a_, a_, b_], [a_, b_, b_, rnd.choice(regs)], [a_, a_, a_]])
                        stt, pos = view([x for g in pr for x in ("-r", f"{g['ctg']}:{g['a']}-{g['b']}")], lines)
                        qs.append({"regs": pr, "fmt": "", "status": stt, "pos": pos})
                    if conv is not None and len(conv) == len(lines) and not c.get("truncated"):
                        for g in rnd.sample(regs, min(4, len(regs))):
                            stt, pos = view(["-r", f"{g['ctg']}:{g['a']}-{g['b']}", "-g", gfa, "-f", other], conv)
                            qs.append({"regs": [g], "fmt": other, "status": stt, "pos": pos})
                    c["rqueries"] = qs
            else:
                c.update({"cat_status": "", "cat_pos": [], "queries": [], "fqueries": [], "rqueries": []})
            cases.append(c)
        if slines is None or len(slines) != len(ulines):
            cases.append({"id": f"{sid}.stable", "mode": mode, "truncated": False, "sampled": scale > 1, "singles_only": False, "segs": segs, "file": [], "fmt": "stable", "index_status": "whole_file_conversion_failed",
                          "idx": [], "cat_status": "", "cat_pos": [], "queries": [], "fqueries": [], "rqueries": []})
        return cases
    finally:
        shutil.rmtree(d, ignore_errors=True)


def run_mode(ctx, mode):
    cfgs = ["ViewIndex_t.cfg", "ViewIndex_q3.cfg"] if ctx.thorough else ["ViewIndex_q.cfg", "ViewIndex_q2.cfg", "ViewIndex_q3.cfg"]
    jobs = []
    flagdir = os.path.join(ctx.scratch, "timeouts")
    os.makedirs(flagdir, exist_ok=True)
    for cfg in cfgs:
        states, r = gen_states(ctx, "ViewIndex", cfg, coverage=False)
        k = 0
        for st in states:
            if st["phase"] != "file" or not st["walks"]:
                continue
            k += 1
            sid = f"{cfg[10:-4]}-{k}"
            jobs.append((sid, st, mode, "bgzf" if k % 2 else "plain", k % 3 == 0, ctx.seed * 7919 + k, {"flagdir": flagdir, "scale": 7 if k % 5 == 0 else (9000 if k % 10 == 2 else 1)}))
    if mode == "C04" and jobs:
        # one small session repeated 5,200 times: every node is then on more than 10,000 records
        big = next((j for j in jobs if 2 <= len(j[1]["walks"]) <= 3), jobs[0])
        jobs.append((big[0] + "-x5200", big[1], mode, "plain", False, ctx.seed * 7919 + 77, {"flagdir": flagdir, "scale": 1, "repeat": 5200}))
    if mode == "C05" and jobs:
        # a reference chain of 60 (thorough: 75) segments, every one aligned: regions and node lists over more than 50 indexed nodes
        n_, L_ = (75 if ctx.thorough else 60), 3
        wide = {"phase": "file", "ref": [L_] * n_, "hap": [], "extra": [], "avoid": [],
                "links": [{"ends": [[k, 1], [k + 1, 0]], "ov": 0} for k in range(1, n_)],
                "walks": [[[">", k]] for k in range(1, n_ + 1)] + [[[">", k], [">", k + 1]] for k in range(1, n_, 7)] + [[["<", k + 1], ["<", k]] for k in range(3, n_, 11)]}
        for storage in ("plain", "bgzf"):
            jobs.append((f"wide{n_}-{storage}", wide, mode, storage, False, ctx.seed * 7919 + 78, {"flagdir": flagdir, "scale": 1, "wide": (L_, n_), "pairs": 3}))
    if ctx.thorough and len(jobs) > 6000:
        rnd = random.Random(ctx.seed)
        special = [j for j in jobs if j[6].get("wide") or j[6].get("repeat")]      # the hand-made sessions are always run
        jobs = rnd.sample([j for j in jobs if j not in special], 6000 - len(special)) + special
        ctx.notes["sampled_sessions"] = 6000
    else:
        ctx.exhaustive = True
    res = pool_map(run_session, jobs, chunk=2)
    cases = [c for cs in res for c in cs]
    for c in cases:
        n = len(c.get("queries", [])) + len(c.get("fqueries", [])) + len(c.get("rqueries", [])) + (1 if mode == "C03" else 0)
        ctx.evaluations += n
        if c["file"] and (c.get("session", {}).get("avoid") or c["fmt"] == "stable"):
            ctx.nontrivial.add(c["id"])
    verdicts = ctx.validate("Check_View", cases, cfg="Check_View.cfg")
    for c in cases:
        v = verdicts[c["id"]]
        if v != "ok":
            bad = dict(c)
            for key in ("queries", "rqueries", "fqueries"):
                if key in bad:
                    bad[key] = [q for q in bad[key] if q["status"] != "ok" or True][:60]
            ctx.violation(v, bad)
    for c in cases[:: max(1, len(cases) // 2)][:2]:
        s = {k: c[k] for k in ("id", "segs", "fmt", "storage") if k in c}
        s["file"] = c["file"][:5]
        if mode == "C03":
            s["idx"] = c.get("idx", [])[:4]
        if mode == "C04":
            s["queries"] = c.get("queries", [])[:4]
        if mode == "C05":
            s["rqueries"] = c.get("rqueries", [])[:4]
        ctx.sample(s)
