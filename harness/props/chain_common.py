"""Shared driver for C06 (BO/NO), C07 (graph preserved), C18 (skipped components) - `gaftools order_gfa`."""
import glob
import itertools
import os
import re
import random
import shutil
import subprocess
import sys
import tempfile
import zlib

from engine import REPO, gen_states, pool_map
from readers import read_out, read_text, run_cli, split_gfa, write_text, workdir, lines_of


def idnum(nid):
    return int(re.sub(r"\D", "", nid) or 0)


def seq_of(nid, ln):
    return "".join("ACGT"[(ord(c) + 3 * k) % 4] for k, c in enumerate((nid * 3)[:ln]))


def build_lines(st, decorate, rnd):
    S, Ls, other = [], [], []
    for n in sorted(st["nodes"], key=lambda n: n["id"]):
        tags = [f"LN:i:{n['ln']}", f"SN:Z:{n['sn']}", f"SO:i:{n['so']}", f"SR:i:{n['sr']}"]
        if decorate and n["sr"] == 1 and idnum(n["id"]) % 4 == 2:
            tags = [f"LN:i:{n['ln']}"]       # a segment outside the rGFA reference annotation: no SN / SO / SR at all
        if decorate:
            # (numbers are kept as WRITTEN: a sign, leading zeros, a float without integer part are all valid spellings)
            extra = [["xn:i:-3", "xr:i:0042", "xe:Z:"], ["xx:Z:a:b", "xf:f:1e-05", "xd:i:+3"], ["xs:Z:two words ", "xg:f:.5"], ["xa:A:*", "xh:f:-.25e1"]][idnum(n["id"]) % 4]
            tags += extra
        if decorate and idnum(n["id"]) % 5 == 3:      # LN is optional when the sequence is given: nothing may invent it
            tags = [t for t in tags if not t.startswith("LN:")]
        sq = seq_of(n["id"], n["ln"])
        if idnum(n["id"]) % 3 == 1:      # soft-masked / ambiguous bases: the sequence text is data, not a normal form
            sq = sq[:1].lower() + sq[1:-1] + ("n" if len(sq) > 1 else "")
        S.append("\t".join(["S", n["id"], sq] + tags))
    for k, l in enumerate(sorted(st["links"], key=lambda l: (l["a"], l["ao"], l["b"], l["bo"]))):
        a, ao, b, bo = l["a"], l["ao"], l["b"], l["bo"]
        ov, tags = "0M", []
        if decorate:
            if k % 3 == 1:  # declare the same link from its other end
                a, ao, b, bo = b, "-" if bo == "+" else "+", a, "-" if ao == "+" else "+"
            if k % 4 == 2:
                ov = "3M"
            tags = [[], ["ll:i:5"], ["lz:Z:x:y", "ll:i:7"], ["lc:Z:inverted allele", "lb:B:i,1,-2"], ["nt:Z:alt allele\u2028seen in HG002\x1c\x0b", "ll:i:9"]][k % 5]
        Ls.append("\t".join(["L", a, ao, b, bo, ov] + tags))
    if decorate:
        other = ["H\tVN:Z:1.0", "# a comment line", "", "P\tp1\ts8+,s9+\t*", "W\tsample\t0\tchrA\t0\t10\t>s8>s9"]
        inner = [n["id"] for n in st["nodes"] if n["sr"] == 1]
        if inner:
            Ls.append(f"L\t{inner[0]}\t+\t{inner[0]}\t+\t0M\tsl:i:1")  # a self-link on an alternative allele
    return S, Ls, other


def parse_out(paths_gfa, paths_csv):
    segs, links, tags, seg_order = {}, [], {}, []
    s_before_l = True
    for p in paths_gfa:
        seen_l = False
        S, L, O = split_gfa(read_text(p))
        text_lines = lines_of(read_text(p))
        for line in text_lines:
            if line.startswith("L"):
                seen_l = True
            elif line.startswith("S") and seen_l:
                s_before_l = False
        for s in S:
            seg_order.append(s["id"])
            segs[s["id"]] = {"seq": s["seq"], "tags": s["tags"]}
            t = {x[0]: x[2] for x in s["tags"]}
            try:
                tags[s["id"]] = [int(t["BO"]), int(t["NO"])]
            except Exception:  # noqa
                tags[s["id"]] = [-99, -99]
        for l in L:
            links.append({"a": l["a"], "ao": l["ao"], "b": l["b"], "bo": l["bo"], "ov": l["ov"], "tags": l["tags"]})
    csv = []
    for p in paths_csv:
        for line in lines_of(read_out(p)):
            f = line.split(",")
            if f[0] == "Name":
                continue
            try:
                csv.append([f[0], int(f[4]), int(f[5]), f[1]])
            except Exception:  # noqa
                csv.append([f[0], -99, -99, "malformed"])
    return segs, links, tags, seg_order, s_before_l, csv


def one_run(d, tag, lines, order, by_chrom, withseq, gz, variant, hashseed=None, pair=0, no_order_arg=False):
    gfa = os.path.join(d, f"{tag}.gfa" + (".gz" if gz else ""))
    write_text(gfa, "\n".join(lines) + "\n", "gz" if gz else "plain")
    out = os.path.join(d, f"out_{tag}")
    # one run in three goes into an output directory that already holds per-chromosome files of an earlier run on another
    # version of the graph (same base name), for every requested chromosome - also for those this run will skip.
    # "Produced by this run" = files that are new or whose content changed.
    before = {}
    if hashseed is None and zlib.crc32((tag + variant + ",".join(order)).encode()) % 3 == 0:
        os.makedirs(out, exist_ok=True)
        for c in order:
            for ext, text in ((".gfa", f"S\tstale_{c}\t*\tLN:i:1\tSN:Z:{c}\tSO:i:0\tSR:i:0\tBO:i:900\tNO:i:0\n"), (".csv", f"stale_{c},scaffold,x,y,900,0\n")):
                fp = os.path.join(out, f"{tag}-{c}{ext}")
                with open(fp, "w") as f:
                    f.write(text)
                before[fp] = text
    argv = ["order_gfa"] + ([] if no_order_arg else ["--chromosome_order", ",".join(order)]) + ["--outdir", out] + (["--by-chrom"] if by_chrom else []) + (["--with-sequence"] if withseq else []) + [gfa]
    if hashseed is None:
        r = run_cli(argv, timeout=120)
        status = r["status"] if r["status"] == "ok" else r["status"] + ":" + r["exc"][:60]
    else:
        env = dict(os.environ, PYTHONHASHSEED=str(hashseed), PYTHONPATH=REPO)
        p = subprocess.run([sys.executable, "-m", "gaftools"] + argv, env=env, capture_output=True, text=True, timeout=120)
        status = "ok" if p.returncode == 0 else f"exit:{p.returncode}:" + (p.stderr.strip().splitlines() or [""])[-1][:60]
    produced = lambda p: p not in before or read_text(p) != before[p]      # noqa: E731
    gfas = sorted(p for p in glob.glob(os.path.join(out, "*.gfa")) if produced(p))
    csvs = sorted(p for p in glob.glob(os.path.join(out, "*.csv")) if produced(p))
    # files in requested order (the complete file is a single one)
    def key(p):
        for k, c in enumerate(order):
            if p.rsplit(".", 1)[0].endswith("-" + c):
                return k
        return 99
    gfas.sort(key=key)
    csvs.sort(key=key)
    segs, links, tags, seg_order, sbl, csv = parse_out(gfas, csvs)
    written = [c for c in order if any(p.rsplit(".", 1)[0].endswith("-" + c) for p in gfas + csvs)
               and (by_chrom or c != "complete")]      # (the merged file of a run without --by-chrom is called -complete whatever the chromosomes are called)
    # documented names: <graph name>-<chromosome>.gfa/.csv and <graph name>-complete.gfa/.csv
    # (the part before the dash is derived from the input's name in two slightly different ways for .gfa and .csv, as it always was)
    odd = [os.path.basename(p) for p in gfas + csvs if not any(os.path.basename(p).rsplit(".", 1)[0].endswith("-" + c) for c in list(order) + ["complete"])]
    if odd and status == "ok":
        status = "output_file_not_named_as_documented:" + odd[0][:40]
    files = {(os.path.basename(p).split("-", 1)[1] if "-" in os.path.basename(p) else os.path.basename(p)): read_text(p) for p in gfas + csvs}
    return {"order": order, "status": status, "tags": tags, "variant": variant, "segs": segs, "links": links, "seg_order": seg_order,
            "s_before_l": sbl, "csv": csv, "withseq": withseq, "by_chrom": by_chrom, "written": written, "pair": pair,
            "files": sorted(files.items()), "out_gfas": gfas}


def run_session(job):
    sid, st, mode, seed, opts = job
    rnd = random.Random(seed)
    d = workdir("chain_", sid)
    try:
        decorate = mode == "C07"
        S, L, other = build_lines(st, decorate, rnd)
        names = [c["name"] for c in st["chroms"]]
        good = [c["name"] for c in st["chroms"] if not c["bad"]]
        base = other[:1] + S + L + other[1:]
        runs = []
        if mode == "C06" and opts.get("default_order"):
            sh = base[:]
            rnd.shuffle(sh)
            runs.append(one_run(d, "dflt0", base, names, False, False, False, "base", no_order_arg=True))
            runs.append(one_run(d, "dflt1", sh, names, True, False, False, "perm", no_order_arg=True))
        elif mode == "C06":
            orders = list(itertools.permutations(names)) if len(names) <= 3 else [names]
            for oi, order in enumerate(orders):
                order = list(order)
                runs.append(one_run(d, f"b{oi}", base, order, True, False, False, "base"))
                if oi == 0:
                    sh = base[:]
                    rnd.shuffle(sh)
                    runs.append(one_run(d, "p1", sh, order, False, False, False, "perm"))
                    runs.append(one_run(d, "p2", base[::-1], order, True, True, True, "perm"))
                    # stale tags: feed the output of a run made with another chromosome order back in
                    src = one_run(d, "st0", base, list(reversed(order)), False, True, False, "base")
                    if src["status"] == "ok" and src["out_gfas"]:
                        stale = lines_of(read_text(src["out_gfas"][0]))
                        rnd.shuffle(stale)
                        runs.append(one_run(d, "st1", stale, order, True, False, False, "stale"))
                        # tags left by a run on an earlier version of the graph: complete, but not matching this graph
                        def scramble(l):
                            l = re.sub(r"BO:i:(\d+)", lambda m: "BO:i:%d" % (97 - int(m.group(1))), l)
                            return re.sub(r"NO:i:(\d+)", lambda m: "NO:i:%d" % ((int(m.group(1)) + 2) % 3), l)
                        runs.append(one_run(d, "st2", [scramble(l) for l in stale], order, False, False, False, "stale"))
                    if opts.get("hashseeds"):
                        for hs in opts["hashseeds"]:
                            runs.append(one_run(d, f"h{hs}", base, order, True, False, False, "hashseed", hashseed=hs))
        elif mode == "C07":
            k = seed % 4
            cfgs = [(True, True, False), (False, False, False), (True, False, True), (False, True, False)]
            for ci, (bc, ws, gz) in enumerate(cfgs if opts.get("allcfg") else [cfgs[k], cfgs[(k + 1) % 4]]):
                lines = base[:]
                if ci % 2 == 1:       # record types interleaved: S, L and other lines in a seeded random order
                    rnd.shuffle(lines)
                runs.append(one_run(d, f"c{ci}", lines, names, bc, ws, gz, "base" if ci % 2 == 0 else "shuffled"))
        elif opts.get("default_order"):      # C18 with the documented default request (no --chromosome_order)
            runs.append(one_run(d, "dflt", base, names, False, False, False, "with", no_order_arg=True))
            runs.append(one_run(d, "dfltc", base, names, True, False, False, "with", no_order_arg=True))
        else:  # C18
            orders = list(itertools.permutations(names)) if len(names) <= 3 else [names]
            for oi, order in enumerate(orders):
                order = list(order)
                without = [c for c in order if c in good]
                for bc in (True, False):
                    if without:
                        runs.append(one_run(d, f"w{oi}{int(bc)}", base, without, bc, False, False, "without"))
                        runs.append(one_run(d, f"r{oi}{int(bc)}", base, order, bc, False, False, "with", pair=len(runs)))
                    else:
                        runs.append(one_run(d, f"r{oi}{int(bc)}", base, order, bc, False, False, "with"))
                if oi == 0 and without:
                    # the same request on an input that already carries BO/NO tags (e.g. of an earlier run on another
                    # version of the graph), for the skipped chromosomes too
                    stale = [l + f"\tBO:i:{7 + 3 * k}\tNO:i:{k % 2}" if l.startswith("S\t") else l for k, l in enumerate(base)]
                    for bc in (True, False):
                        runs.append(one_run(d, f"sw{int(bc)}", stale, without, bc, False, False, "without"))
                        runs.append(one_run(d, f"sr{int(bc)}", stale, order, bc, False, False, "with", pair=len(runs)))
        c = {"id": sid, "mode": mode, "chroms": st["chroms"], "runs": runs}
        if mode == "C07":
            iS, iL, _ = split_gfa("\n".join(base) + "\n")
            c["in_segs"] = {s["id"]: {"seq": s["seq"], "tags": s["tags"]} for s in iS}
            c["in_links"] = [{"a": l["a"], "ao": l["ao"], "b": l["b"], "bo": l["bo"], "ov": l["ov"], "tags": l["tags"]} for l in iL]
            rt = {"status": "ok", "segs": {}, "links": [], "links2": []}
            try:
                from gaftools.gfa import GFA

                src = os.path.join(d, "rt_in.gfa")
                rt_lines = base[:]
                if seed % 2:
                    rnd.shuffle(rt_lines)
                write_text(src, "\n".join(rt_lines) + "\n")
                g = GFA(src)
                w1 = os.path.join(d, "rt1.gfa")
                g.write_gfa(output_file=w1)
                s1, l1, _ = split_gfa(read_text(w1))
                rt["segs"] = {s["id"]: {"seq": s["seq"], "tags": s["tags"]} for s in s1}
                rt["links"] = [{"a": l["a"], "ao": l["ao"], "b": l["b"], "bo": l["bo"], "ov": l["ov"], "tags": l["tags"]} for l in l1]
                g2 = GFA(w1)
                w2 = os.path.join(d, "rt2.gfa")
                g2.write_gfa(output_file=w2)
                _, l2, _ = split_gfa(read_text(w2))
                rt["links2"] = [{"a": l["a"], "ao": l["ao"], "b": l["b"], "bo": l["bo"], "ov": l["ov"], "tags": l["tags"]} for l in l2]
            except Exception as e:  # noqa
                rt["status"] = f"{type(e).__name__}: {e}"[:80]
            c["rt"] = rt
        for r in runs:
            r.pop("out_gfas", None)
            if mode != "C07":
                for k in ("segs", "links", "csv", "seg_order"):
                    r.pop(k, None)
            if mode != "C18":
                r.pop("files", None)
            # a run without any output still needs the tag map to be a record for TLC
            if not r["tags"]:
                r["tags"] = {"_none_": [0, 0]}
        return c
    finally:
        shutil.rmtree(d, ignore_errors=True)


def sessions(ctx, cfgs, mode, opts_for=lambda k: {}):
    jobs = []
    for cfg in cfgs:
        states, r = gen_states(ctx, "BubbleChain", cfg, coverage=False, timeout=1500)
        k = 0
        for st in states:
            if st["cur"]["open"] or not st["chroms"]:
                continue
            if mode == "C18" and not any(c["bad"] for c in st["chroms"]):
                continue
            k += 1
            # chromosome names are opaque to the model; two of three sessions use names that are prefixes of one another
            # (chr1 / chr10 / chr2) in either assignment, as real assemblies do
            # ... and one in four assembly-prefixed / region-style names with ':' in them (hs1:chr1, chr6:2851-3348)
            ren = [{}, {"chrA": "chr10", "chrB": "chr1", "chrC": "chr2"}, {"chrA": "chr1", "chrB": "chr10", "chrC": "chr100"},
                   {"chrA": "hs1:chr1", "chrB": "hs1:chr10", "chrC": "chr6:2851-3348"}][k % 4]
            if k % 11 in (6, 7):      # ... and one in six has a chromosome called "complete", the word the merged output file is named with
                ren = dict(ren, **{"chrA" if k % 11 == 6 else "chrB": "complete"})
            nodes = [dict(n, sn=ren.get(n["sn"], n["sn"])) for n in st["nodes"]]
            if k % 4 == 3:      # allele contigs named like HLA alleles: they share everything before the first colon
                nodes = [dict(n, sn=("HLA-A*01:" + n["sn"][3:] + ":01") if n["sr"] == 1 and n["sn"].startswith("alt") else n["sn"]) for n in nodes]
            if k % 2 == 1:      # assembler-style names of the non-reference contigs: they sort AFTER the chromosome names
                nodes = [dict(n, sn=("ptg0000" + n["sn"][3:] + "l") if n["sr"] == 1 and n["sn"].startswith("alt") else n["sn"]) for n in nodes]
            chroms = [dict(c, name=ren.get(c["name"], c["name"])) for c in st["chroms"]]
            links = st["links"]
            # segment names are free text: two of seven sessions use plain integers, as graphs from other tools do - counted from 0
            # (names like "0", "1": what a program might use for its own bookkeeping) or from 5 (bubbles across the 9 | 10 boundary)
            if k % 7 == 1:      # assembler-style ids in mixed case (Utg7 / utg12): text order is code-point order, not case-insensitive
                rid2 = lambda x: ("Utg" if int(x[1:]) % 2 else "utg") + x[1:]      # noqa: E731
                nodes = [dict(n, id=rid2(n["id"])) for n in nodes]
                links = [dict(l, a=rid2(l["a"]), b=rid2(l["b"])) for l in links]
                chroms = [dict(c, elems=[dict(e, ns=[rid2(x) for x in e["ns"]]) for e in c["elems"]]) for c in chroms]
            if k % 7 in (3, 5):
                off = 8 if k % 7 == 3 else 3
                rid = lambda x: str(int(x[1:]) - off)      # noqa: E731
                nodes = [dict(n, id=rid(n["id"])) for n in nodes]
                links = [dict(l, a=rid(l["a"]), b=rid(l["b"])) for l in links]
                chroms = [dict(c, elems=[dict(e, ns=[rid(x) for x in e["ns"]]) for e in c["elems"]]) for c in chroms]
            if mode == "C18" and k % 3 == 0 and not any(not n["id"].startswith("s") for n in nodes):
                # an unplaced assembly contig (three segments, none of reference rank) that nobody asks for; its S lines stand
                # right behind those of the last unorderable chromosome
                bad_ids = [x for c in chroms if c["bad"] for e in c["elems"] for x in e["ns"]]
                base_id = max(bad_ids, key=lambda x: (len(x), x)) if bad_ids else None
                if base_id:
                    x1, x2, x3 = base_id + "x1", base_id + "x2", base_id + "x3"      # (a chain of its own: tip - segment - tip)
                    nodes = nodes + [{"id": x, "sn": "unplaced_ctg7", "so": 2 * j, "ln": 2, "sr": 1} for j, x in enumerate((x1, x2, x3))]
                    links = list(links) + [{"a": x1, "ao": "+", "b": x2, "bo": "+"}, {"a": x2, "ao": "+", "b": x3, "bo": "+"}]
            jobs.append((f"{cfg[12:-4]}-{k}", {"nodes": nodes, "links": links, "chroms": chroms}, mode, ctx.seed * 1009 + k, opts_for(k)))
    return jobs


def scale_state(n_alleles):
    """One chromosome with a bubble of n_alleles alleles in the middle of the chain (written by hand in the generator's state
    format, not enumerated by TLC: tip s1 - s2 =(s1000 ...)= s3 =(s4 | s5)= s6 - tip s7)."""
    ref = ["s1", "s2", "s1000", "s3", "s4", "s6", "s7"]
    alts = [f"s{1000 + k}" for k in range(1, n_alleles)] + ["s5"]
    nodes = [{"id": n, "sn": "chrA", "so": 2 * k, "ln": 2, "sr": 0} for k, n in enumerate(ref)]
    nodes += [{"id": n, "sn": "alt" + n[1:], "so": 0, "ln": 2, "sr": 1} for n in alts]
    big = ["s1000"] + alts[:-1]
    links = [("s1", "s2"), ("s3", "s4"), ("s3", "s5"), ("s4", "s6"), ("s5", "s6"), ("s6", "s7")]
    links += [("s2", n) for n in big] + [(n, "s3") for n in big]
    elems = [{"k": "b", "ns": ["s1"]}, {"k": "s", "ns": ["s2"]}, {"k": "b", "ns": big}, {"k": "s", "ns": ["s3"]},
             {"k": "b", "ns": ["s4", "s5"]}, {"k": "s", "ns": ["s6"]}, {"k": "b", "ns": ["s7"]}]
    return {"nodes": nodes, "links": [{"a": a, "ao": "+", "b": b, "bo": "+"} for a, b in links],
            "chroms": [{"name": "chrA", "bad": False, "elems": elems}]}


def finish(ctx, jobs, mode):
    cases = pool_map(run_session, jobs, chunk=2)
    for c in cases:
        ctx.evaluations += len(c["runs"])
        if len(c["chroms"]) > 1 or any(len(ch["elems"]) > 3 for ch in c["chroms"]):
            ctx.nontrivial.add(c["id"])
    verdicts = ctx.validate("Check_Chain", cases, cfg="Check_Chain.cfg")
    for c in cases:
        v = verdicts[c["id"]]
        if v != "ok":
            small = {"id": c["id"], "chroms": c["chroms"], "runs": [{k: r[k] for k in ("order", "status", "tags", "variant") if k in r} for r in c["runs"]]}
            ctx.violation(v, small)
    c = cases[len(cases) // 2]
    ctx.sample({"chroms": c["chroms"], "run0": {k: c["runs"][0][k] for k in ("order", "status", "tags", "variant")}})
    return cases
