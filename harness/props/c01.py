"""C01 - coordinate conversion designates the same aligned locus."""
from props.coords_common import run_mode


def run(ctx):
    ctx.rule = (
        "TLC enumerates every (rGFA, walk) of the bounded Coords generator (rank-0 contig tiled by <=3 segments, "
        "haplotype contig with <=2 touching/separated segments, walks in every orientation mix incl. revisits); for "
        "each the harness converts ALL start/end offset pairs u->s->u2 with gaftools view; plus seeded random larger "
        "graphs/walks; TLC (Check_Coords) decides Denote/CigarRO/PathLenOK. non-trivial = walk with a reverse step or >=2 nodes"
    )
    run_mode(ctx, "C01")
    ctx.assumptions += ["input alignments are '+'-strand walks (the property's quantifier); '-' strand arises only as gaftools output and is then converted back"]
