"""C07 - order_gfa and GFA I/O preserve the graph."""
from props.chain_common import finish, sessions


def run(ctx):
    ctx.rule = (
        "the C06 graphs decorated with extra S tags of several types (incl. a Z value containing ':'), link tags, 3M overlaps, links "
        "declared from their other end, a self-link, header / comment / P / W records interleaved; gaftools order_gfa runs with and "
        "without --by-chrom / --with-sequence / gz input and GFA.write_gfa round-trips the file twice; TLC (Check_Chain.V07) decides "
        "segments, sequences, tags, canonical links with overlaps and tags, layout, CSV; non-trivial = >1 chromosome or >3 elements"
    )
    cfgs = ["BubbleChain_q.cfg", "BubbleChain_q2.cfg", "BubbleChain_long.cfg", "BubbleChain_w.cfg"] if not ctx.thorough else ["BubbleChain_t.cfg", "BubbleChain_q2.cfg", "BubbleChain_t3.cfg", "BubbleChain_long.cfg", "BubbleChain_w.cfg"]
    jobs = sessions(ctx, cfgs, "C07", lambda k: {"allcfg": ctx.thorough})
    # scale: a bubble with 1,100 alleles that is not the last element of its chain (NO runs past 1000)
    from props.chain_common import scale_state
    jobs.append(("scale-1100", scale_state(1100), "C07", ctx.seed * 1009 + 5, {"allcfg": True}))
    finish(ctx, jobs, "C07")
    ctx.exhaustive = True
