"""Shared driver for C11 (schedules) and C13 (worker faults) - the collector of `gaftools realign`."""
import os
import subprocess
import sys

from readers import read_out, lines_of
from engine import NCPU, REPO, SPEC, MachineryError, gen_states, pool_map
from tlaval import parse_action_label
import tours

NODE1 = "ACGTTGCAAGGCTTAACGGATCCA"
NODE2 = "TTGACCGATAGGCATCAAGT"


# optional fields are data, never format strings or patterns
ZTAG = ["co:Z:{\"lib\":\"A\",\"run\":7}", "zz:Z:100%s %d {0} {}", "NM:i:1", "rg:Z:a\\tb\\n"]


def RN(i):
    """name of the i-th read: text order is the REVERSE of input order, so that equal priorities broken by record
    text can never restore the input order by accident"""
    # read names are free text: every third name keeps a FASTQ-style '@', every fifth starts with '#'
    return ("@" if i % 3 == 2 else "#" if i % 5 == 4 else "") + f"r{100000 - i}"


def prio_of(name):
    name = name.lstrip("@#")
    return 100000 - int(name[1:]) if name[1:].isdigit() else 0


def make_inputs(d, R, long_at=0, bgzf_aligned=False, poison_at=0):
    """tiny graph, R reads aligned to >s1>s2 (each with its own substitution); long_at = k > 0: the k-th read is an
    ultra-long one (60,001 aligned bases on a third node), which realign passes through without realigning"""
    os.makedirs(d, exist_ok=True)
    gfa = os.path.join(d, "g.gfa")
    big = ""
    if long_at:
        import random as _r

        rr = _r.Random(7)
        big = "".join(rr.choice("ACGT") for _ in range(60010))
    from readers import write_text

    gtxt = (f"S\ts1\t{NODE1}\tLN:i:{len(NODE1)}\tSN:Z:chr1\tSO:i:0\tSR:i:0\n"
            f"S\ts2.1\t{NODE2}\tLN:i:{len(NODE2)}\tSN:Z:chr1\tSO:i:{len(NODE1)}\tSR:i:0\n" + "L\ts1\t+\ts2.1\t+\t0M\n"
            # (s2 can also be entered inverted, as after an inversion call: two links between the same two segments)
            + "L\ts1\t+\ts2.1\t-\t0M\n")
    if long_at:
        gtxt += f"S\ts3\t{big}\tLN:i:{len(big)}\tSN:Z:chr1\tSO:i:{len(NODE1) + len(NODE2)}\tSR:i:0\n" + "L\ts2.1\t+\ts3\t+\t0M\n"
    write_text(gfa, gtxt)
    path = NODE1 + NODE2
    fa = os.path.join(d, "reads.fa")
    gaf = os.path.join(d, "a.gaf")
    with open(fa, "w") as f, open(gaf, "w") as g:
        for i in range(1, R + 1):
            if i == long_at:
                seq = big[3:60004]
                f.write(f">{RN(i)}\n{seq}\n")
                g.write(f"{RN(i)}\t{len(seq)}\t0\t{len(seq)}\t+\t>s3\t{len(big)}\t3\t60004\t{len(seq)}\t{len(seq)}\t60\ttp:A:P\tcg:Z:{len(seq)}=\n")
                continue
            if i == poison_at:
                # a record whose path is not a walk of this graph (made against another version of it): there is nothing to
                # align against, the worker that gets it fails
                f.write(f">{RN(i)}\nACGTACGTAC\n")
                g.write(f"{RN(i)}\t10\t0\t10\t+\t>s2.1>s1\t{len(path)}\t0\t10\t10\t10\t60\ttp:A:P\tcg:Z:10=\n")
                continue
            ps, pe = (i + 1) % 3, len(path) - (i % 3)      # i = 2: starts at the first base of the path; i = 3: ends at its last base
            seq = list(path[ps:pe])
            k = (3 * i) % len(seq)
            seq[k] = "A" if seq[k] != "A" else "C"
            seq = "".join(seq)
            f.write(f">{RN(i)}\n{seq}\n")
            L = len(seq)
            g.write(
                f"{RN(i)}\t{L}\t0\t{L}\t+\t>s1>s2.1\t{len(path)}\t{ps}\t{pe}\t{L-1}\t{L}\t60\ttp:A:P\tcg:Z:{L}=\t{ZTAG[i % len(ZTAG)]}\n"
            )
    if bgzf_aligned:
        # the same records as a multi-block BGZF file > 1 MiB in which records start exactly at 64 KiB ... 1 MiB
        from readers import align_starts, starts_of, write_bgzf

        lines = align_starts(read_out(gaf).splitlines(), [1 << 16, 1 << 17, 1 << 18, 1 << 19, 1 << 20], pad=1300)      # > 1 MiB of output per 1000-record batch
        assert (1 << 20) in starts_of(lines), "alignment of record starts failed"
        os.unlink(gaf)
        gaf = gaf + ".gz"
        write_bgzf(gaf, ("\n".join(lines) + "\n").encode(), 65280)
    import pysam

    pysam.FastaFile(fa).close()  # builds the .fai once
    return gaf, gfa, fa


def reference_output(gaf, gfa, fa, B, d):
    """single-core output with REAL multiprocessing, in a separate interpreter"""
    out = os.path.join(d, f"ref_{B}.gaf")
    env = dict(os.environ, GAFTOOLS_VERIF="1", GAFTOOLS_VERIF_BATCH_SIZE=str(B), PYTHONPATH=REPO)
    p = subprocess.run(
        [sys.executable, "-m", "gaftools", "realign", gaf, gfa, fa, "-o", out, "-c", "1"],
        env=env, capture_output=True, text=True, timeout=120,
    )
    if p.returncode != 0:
        return None, p.stderr[-500:]
    return read_out(out).splitlines(keepends=True), ""


def cfg_text(k, properties=True):
    kinds = "{" + ", ".join('"%s"' % x for x in k["kinds"]) + "}"
    s = "SPECIFICATION Spec\n" if properties else "SPECIFICATION CSpec\n"
    s += (
        f"CONSTANTS R = {k['R']}  B = {k['B']}  C = {k['C']}  Cap = {k['Cap']}  "
        f"MaxFaults = {k['F']}  FaultKinds = {kinds}  Fixed = {'TRUE' if k.get('Fixed', True) else 'FALSE'}\n"
    )
    if properties:
        s += "INVARIANT TypeOK\nINVARIANT NoCrash\nINVARIANT OutPrefix\nINVARIANT FinishedComplete\nINVARIANT NoAbortWithoutFault\nINVARIANT NoLiveWorkerAtExit\nINVARIANT EarlyDeathNeverSucceeds\nPROPERTY Terminates\n"
    else:
        s += "POSTCONDITION AllConsumed\n"
    s += "CHECK_DEADLOCK FALSE\n"
    return s


def write_cfg(ctx, k, properties=True):
    name = os.path.join(ctx.scratch, f"realign_{'mc' if properties else 'tr'}_{k['R']}_{k['B']}_{k['C']}_{k['Cap']}_{k['F']}_{len(k['kinds'])}.cfg")
    with open(name, "w") as f:
        f.write(cfg_text(k, properties))
    return name


def _names(prios):
    return [RN(p) for p in prios]


_JOB_ENV = {}


def _outcome_case(cid, k, res, ref):
    # what counts is the TEXT that was written, however it was cut into write() calls (one per record, one per batch, ...)
    lines = "".join(res["written"]).split("\n")
    if lines and lines[-1] == "":
        lines.pop()
    lines = [l + "\n" for l in lines]
    prios = [prio_of(l.split("\t")[0]) for l in lines]
    return {"id": cid, "R": k["R"], "faults": res["faults"], "early": res.get("early", 0), "natural": res.get("natural", 0), "poison": bool(k.get("poison")), "end": res["end"], "end_detail": res["end_detail"], "prios": prios,
            "lines": lines, "ref": ref, "diverged": res["diverged"]}


def _dbg(key):
    """one run in four is made as `gaftools --debug realign ...` (the global option must not change what happens)"""
    import zlib

    return ["--debug"] if zlib.crc32(("dbg" + key).encode()) % 4 == 1 else []


def replay_job(job):
    """lock-step replay of one behaviour (runs in a pool worker); if the implementation does not follow the
    model step for step, the behaviour is replayed again as a mere schedule and judged on its outcome"""
    from sched import run_schedule, run_script

    k, labels, inputs, bid, ref = job
    os.environ["GAFTOOLS_VERIF"] = "1"
    os.environ["GAFTOOLS_VERIF_BATCH_SIZE"] = str(k["B"])
    gaf, gfa, fa = inputs
    argv = _dbg(str(bid)) + ["realign", gaf, gfa, fa, "-c", str(k["C"])]
    clause, detail = run_script(argv, k["Cap"], k["C"], labels, _names)
    outcome = None
    if clause != "ok":
        res = run_schedule(argv, k["Cap"], k["C"], labels)
        outcome = _outcome_case(f"{bid}", k, res, ref)
    return bid, clause, detail, outcome


def random_job(job):
    from sched import run_random

    k, seed, inputs, ref, cid = job
    os.environ["GAFTOOLS_VERIF"] = "1"
    os.environ["GAFTOOLS_VERIF_BATCH_SIZE"] = str(k["B"])
    gaf, gfa, fa = inputs
    argv = _dbg(str(cid)) + ["realign", gaf, gfa, fa, "-c", str(k["C"])]
    trace, end, written = run_random(argv, k["Cap"], k["C"], seed, max_faults=k["F"], fault_kinds=k["kinds"])
    for e in trace:
        if e["t"] == "PDrain":
            e["prios"] = [prio_of(l.split("\t")[0]) for l in e.pop("lines")]
    return {
        "id": cid,
        "trace": trace,
        "end": end[0] if end else "none",
        "end_detail": end[1] if end else "",
        "lines": written,
        "ref": ref,
        "seed": seed,
        "cfg": {x: k[x] for x in ("R", "B", "C", "Cap", "F")},
    }


def reschedule_job(job):
    """a recorded random trace that the model rejected, replayed as a mere schedule"""
    from sched import run_schedule

    k, trace, inputs, ref, cid = job
    os.environ["GAFTOOLS_VERIF"] = "1"
    os.environ["GAFTOOLS_VERIF_BATCH_SIZE"] = str(k["B"])
    gaf, gfa, fa = inputs
    argv = _dbg(str(cid)) + ["realign", gaf, gfa, fa, "-c", str(k["C"])]
    labels = [(e["t"], e.get("w"), None) for e in trace if e["t"][0] in "WP" and e["t"] not in ("HANG", "LIVELOCK", "STUCK")]
    return _outcome_case(cid, k, run_schedule(argv, k["Cap"], k["C"], labels), ref)


def judge_outcomes(ctx, outcomes, kind):
    """runs that did not follow the model step for step: a violation only if the OUTCOME breaks the property"""
    if not outcomes:
        return
    verdicts = ctx.validate("Check_RealignOutcome", outcomes)
    div = ctx.notes.setdefault("model_divergences_with_correct_outcome", {"count": 0, "examples": []})
    for o in outcomes:
        v = verdicts[o["id"]]
        if v != "ok":
            ctx.violation(v, {"outcome": {x: o[x] for x in ("R", "faults", "early", "end", "end_detail", "prios", "diverged")}, "how_the_model_was_left": o["lockstep"]})
        else:
            div["count"] += 1
            if len(div["examples"]) < 3:
                div["examples"].append({"strict_clause": o["lockstep"]["clause"], "diverged": o["diverged"], "end": o["end"]})


def poison_job(job):
    from sched import run_schedule

    k, labels, inputs, cid = job
    os.environ["GAFTOOLS_VERIF"] = "1"
    os.environ["GAFTOOLS_VERIF_BATCH_SIZE"] = str(k["B"])
    gaf, gfa, fa = inputs
    res = run_schedule(["realign", gaf, gfa, fa, "-c", str(k["C"])], k["Cap"], k["C"], labels)
    o = _outcome_case(cid, k, res, [])
    o["lockstep"] = {"clause": "data_caused_worker_failure", "detail": {}, "behaviour": [], "cfg": k}
    return o


def poison_runs(ctx, k, n):
    """A worker that fails because of the DATA (a record whose path is not in the graph), not because a fault was injected:
    schedules of the fault-free model are used as schedules only, the outcome must still be an abort."""
    inputs = make_inputs(os.path.join(ctx.scratch, f"poison_{k['R']}_{k['poison']}"), k["R"], poison_at=k["poison"])
    cfgp = write_cfg(ctx, dict(k, F=0, kinds=[]), True)
    (nodes, edges, init), r = gen_states(ctx, "Realign", cfgp, dot=True, coverage=False)
    g = tours.Graph(nodes, edges, init)
    beh = tours.random_walks(g, n, ctx.seed + 17)
    jobs = []
    for bi, b in enumerate(beh):
        labels = []
        for lab, dst in b:
            _, args = parse_action_label(lab)
            labels.append((args[0]["t"], args[0].get("w"), None))
        jobs.append((k, labels, inputs, f"poison{k['poison']}-R{k['R']}B{k['B']}C{k['C']}-b{bi}"))
    outcomes = pool_map(poison_job, jobs, chunk=4)
    ctx.evaluations += len(outcomes)
    ctx.validated += len(outcomes)
    for o in outcomes:
        ctx.nontrivial.add(o["id"])
        if o["faults"] == 0:
            ctx.violation("harness_poison_record_did_not_fail_the_worker", {"outcome": {x: o[x] for x in ("R", "faults", "end", "end_detail", "prios")}})
    judge_outcomes(ctx, [o for o in outcomes if o["faults"] > 0], "poison")


def explore_config(ctx, k, n_random_walks, n_random_sched, max_tour=None):
    """TLC on the spec (design check), tour + random walks replayed in lock-step, random schedules
    validated by TLC. Returns nothing; records violations in ctx."""
    inputs = make_inputs(os.path.join(ctx.scratch, f"in_{k['R']}_{k.get('long', 0)}"), k["R"], k.get("long", 0))
    ref, err = reference_output(*inputs, k["B"], ctx.scratch)
    if ref is None:
        ctx.violation("single_core_run_failed", {"cfg": k, "stderr": err})
        return
    names = [l.split("\t")[0] for l in ref]
    if names != _names(range(1, k["R"] + 1)):
        ctx.violation("single_core_output_wrong", {"cfg": k, "names": names})
    # ---- spec -> code
    cfgp = write_cfg(ctx, k, True)
    key = f"R{k['R']}B{k['B']}C{k['C']}Cap{k['Cap']}F{k['F']}"
    (nodes, edges, init), r = gen_states(ctx, "Realign", cfgp, dot=True, coverage=False)
    g = tours.Graph(nodes, edges, init)
    beh = tours.transition_tour(g)
    if max_tour:
        beh = beh[:max_tour]
    beh += tours.random_walks(g, n_random_walks, ctx.seed)
    jobs = []
    for bi, b in enumerate(beh):
        labels = []
        for lab, dst in b:
            _, args = parse_action_label(lab)  # Do([t |-> "WPut", w |-> 1])
            labels.append((args[0]["t"], args[0].get("w"), nodes[dst]))
        jobs.append((k, labels, inputs, f"{key}-b{bi}", ref))
    res = pool_map(replay_job, jobs, chunk=4)
    ctx.evaluations += len(jobs)
    nontriv = 0
    outcomes = []
    for (kk, labels, _, bid, _r), (_, clause, detail, outcome) in zip(jobs, res):
        acts = [t for t, _, _ in labels]
        if "PTimeout" in acts or any(t.startswith("WKill") or t.startswith("WCrash") for t in acts):
            ctx.nontrivial.add((key, tuple((t, w) for t, w, _ in labels)))
            nontriv += 1
        if clause != "ok":
            outcome["lockstep"] = {"clause": clause, "detail": detail, "behaviour": [f"{t}({w})" if w else t for t, w, _ in labels], "cfg": k}
            outcomes.append(outcome)
    ctx.validated += len(jobs)
    judge_outcomes(ctx, outcomes, "lockstep")
    ctx.notes.setdefault("configs", []).append(
        {"cfg": key, "states": r.distinct, "edges": g.nedges, "tour_behaviours": len(beh) - n_random_walks,
         "random_walks": n_random_walks, "edges_covered_by_tour": g.nedges}
    )
    if jobs:
        kk, labels, _, _, _r = jobs[len(jobs) // 2]
        ctx.sample({"cfg": key, "lockstep_behaviour": [f"{t}({w})" if w else t for t, w, _ in labels]})
    # ---- code -> spec
    rjobs = [(k, ctx.seed * 100003 + s, inputs, ref, f"{key}-s{s}") for s in range(n_random_sched)]
    cases = pool_map(random_job, rjobs, chunk=4)
    ctx.evaluations += len(cases)
    trp = write_cfg(ctx, k, False)
    # a run that the scheduler gave up on (no termination within the step budget, a hang, a stuck worker) is not folded
    # step by step - thousands of events - but goes straight to the outcome judgement below
    endless = {c["id"]: "run_" + e["t"].lower() for c in cases for e in c["trace"][-1:] if e["t"] in ("HANG", "LIVELOCK", "STUCK")}
    endless.update({c["id"]: "run_too_long" for c in cases if len(c["trace"]) > 1500 and c["id"] not in endless})
    verdicts = ctx.validate("Check_Realign", [c for c in cases if c["id"] not in endless], cfg=trp)
    verdicts.update(endless)
    redo = []
    for c in cases:
        v = verdicts[c["id"]]
        ts = [e["t"] for e in c["trace"]]
        if "PTimeout" in ts or "WKill" in ts or "WCrash" in ts:
            ctx.nontrivial.add((key, "rnd", c["seed"]))
        if v != "ok":
            redo.append((k, c["trace"], inputs, ref, c["id"] + "-o"))
            c["_strict"] = v
    if redo:
        outs = pool_map(reschedule_job, redo, chunk=4)
        by = {c["id"] + "-o": c for c in cases}
        for o in outs:
            o["lockstep"] = {"clause": "trace_" + by[o["id"]]["_strict"], "seed": by[o["id"]]["seed"], "cfg": k,
                             "trace": [f"{e['t']}({e.get('w', '')})" for e in by[o["id"]]["trace"]][:120]}
        judge_outcomes(ctx, outs, "trace")
    if cases:
        c = cases[0]
        ctx.sample({"cfg": key, "random_schedule_trace": [f"{e['t']}({e.get('w','')})" for e in c["trace"]][:60], "end": c["end"]})


def real_mp_tier(ctx, R, B, C, kill_at=None, delay=None, bgzf_aligned=False):
    """Real multiprocessing end to end (trusted-base cross-check of the fake layer)."""
    d = os.path.join(ctx.scratch, f"real_{R}_{B}_{C}_{kill_at}")
    gaf, gfa, fa = make_inputs(d, R, bgzf_aligned=bgzf_aligned)
    out = os.path.join(d, "out.gaf")
    env = dict(os.environ, GAFTOOLS_VERIF="1", GAFTOOLS_VERIF_BATCH_SIZE=str(B), PYTHONPATH=REPO)
    if delay:
        env["VERIF_REALMP_DELAY"] = delay
    driver = os.path.join(os.path.dirname(os.path.dirname(os.path.abspath(__file__))), "realmp_driver.py")
    cmd = [sys.executable, driver, gaf, gfa, fa, out, str(C), "" if kill_at is None else ":".join(str(x) for x in kill_at)]
    try:
        p = subprocess.run(cmd, env=env, capture_output=True, text=True, timeout=60 if R < 1000 else 300)
        rc = p.returncode
        hung = False
    except subprocess.TimeoutExpired:
        rc, hung = None, True
    lines = lines_of(read_out(out)) if os.path.exists(out) else []
    real_mp_tier.killed = os.path.exists(out + ".killed")
    return rc, hung, [l.split("\t")[0] for l in lines]


def apalache_counting_proof(ctx):
    """Inductive invariant of the counting abstraction (spec/apalache/RealignCount.tla) for an arbitrary batch size:
    base case, inductive step with the repaired parent, and the expected counterexample for the D11 deviation."""
    import shutil
    import subprocess
    import time

    exe = shutil.which("apalache-mc")
    if not exe:
        ctx.notes["apalache"] = "apalache-mc not found; inductive proof skipped"
        return
    d = os.path.join(SPEC, "apalache")
    runs = [("base", ["--cinit=ConstInitFixed", "--init=Init", "--inv=IndInv", "--length=0"], True),
            ("step", ["--cinit=ConstInitFixed", "--init=IndInv", "--inv=IndInv", "--length=1"], True),
            ("d11_deviation_is_not_inductive", ["--cinit=ConstInitD11", "--init=IndInv", "--inv=IndInv", "--length=1"], False)]
    out = []
    for name, args, expect_ok in runs:
        t0 = time.time()
        od = os.path.join(ctx.scratch, "apa_" + name)
        p = subprocess.run([exe, "check"] + args + ["--out-dir=" + od, "RealignCount.tla"], cwd=d, capture_output=True, text=True, timeout=900)
        ok = "EXITCODE: OK" in p.stdout
        err = "EXITCODE: ERROR (12)" in p.stdout
        out.append({"obligation": name, "holds": ok, "counterexample": err, "wall_s": round(time.time() - t0, 1)})
        if not (ok or err):
            raise MachineryError("apalache failed: " + p.stdout[-600:] + p.stderr[-300:])
        if expect_ok and not ok:
            ctx.violation("design:RealignCount:inductive_invariant_" + name, {"apalache": p.stdout[-1500:]})
        if not expect_ok and ok:
            ctx.violation("design:RealignCount:deviation_not_detected", {"note": "the D11 deviation should break inductiveness"})
    ctx.notes["apalache_inductive_invariant"] = {"module": "spec/apalache/RealignCount.tla", "K": "arbitrary (symbolic integer >= 1)", "workers": 3, "runs": out}
