"""C11 - realign output is exactly-once and in input order under every schedule."""
from props.realign_common import RN, apalache_counting_proof, explore_config, real_mp_tier


def run(ctx):
    ctx.rule = (
        "behaviours of Realign.tla (transition tour covering every edge of TLC's state graph + seeded random "
        "walks) replayed in lock-step on the real realign_gaf under the deterministic scheduler, plus seeded "
        "random schedules whose recorded traces TLC validates; non-trivial = contains a queue timeout or a fault"
    )
    if ctx.thorough:
        cfgs = [
            (dict(R=3, B=1, C=2, Cap=2, F=0, kinds=[]), 200, 300),
            (dict(R=4, B=2, C=2, Cap=1, F=0, kinds=[]), 200, 300),
            (dict(R=5, B=2, C=2, Cap=2, F=0, kinds=[]), 300, 300),
            (dict(R=3, B=2, C=2, Cap=2, F=0, kinds=[]), 200, 300),
            (dict(R=3, B=2, C=2, Cap=2, F=0, kinds=[], long=2), 60, 100),
            (dict(R=4, B=1, C=2, Cap=2, F=0, kinds=[], long=3), 60, 100),
            (dict(R=5, B=2, C=3, Cap=2, F=0, kinds=[]), 200, 300),
            (dict(R=3, B=1, C=3, Cap=2, F=0, kinds=[]), 300, 300),
            (dict(R=3, B=2, C=2, Cap=2, F=1, kinds=["crash"]), 150, 200),
            (dict(R=3, B=4, C=2, Cap=2, F=0, kinds=[]), 30, 60),
            (dict(R=5, B=6, C=3, Cap=2, F=0, kinds=[]), 30, 60),
            (dict(R=2, B=1, C=1, Cap=1, F=0, kinds=[]), 20, 50),
        ]
    else:
        cfgs = [
            (dict(R=3, B=1, C=2, Cap=2, F=0, kinds=[]), 60, 150),
            (dict(R=4, B=2, C=2, Cap=2, F=0, kinds=[]), 60, 150),      # two records per worker: >= 3 results in one group
            (dict(R=3, B=2, C=2, Cap=2, F=0, kinds=[]), 60, 150),      # a pending full batch and a shorter remainder in one group
            (dict(R=3, B=2, C=2, Cap=2, F=0, kinds=[], long=2), 20, 40),  # the 2nd record is ultra-long (passed through, still in order)
            (dict(R=4, B=1, C=3, Cap=2, F=0, kinds=[]), 40, 80),       # three full batches in one group, a fourth left over
            (dict(R=3, B=2, C=2, Cap=2, F=1, kinds=["crash"]), 40, 60),   # a worker that raises: success is then only allowed with every record written
            (dict(R=3, B=4, C=2, Cap=2, F=0, kinds=[]), 10, 30),       # fewer records than one batch, two cores
            (dict(R=2, B=1, C=1, Cap=1, F=0, kinds=[]), 5, 20),
        ]
    for k, nw, ns in cfgs:
        explore_config(ctx, k, nw, ns)
    apalache_counting_proof(ctx)
    # real multiprocessing with the timeout race forced open (workers slower than the queue timeout, slow liveness check)
    real = []
    for (R, B, C, delay) in ([(5, 2, 2, "0.7:0.9"), (3, 1, 3, "0.3:0.5")] if not ctx.thorough else [(5, 2, 2, "0.7:0.9"), (3, 1, 3, "0.3:0.5"), (4, 1, 2, "0.7:0.2"), (6, 2, 1, "0.7:0.9")]):
        rc, hung, names = real_mp_tier(ctx, R, B, C, None, delay)
        if hung:      # a hang must reproduce
            rc, hung, names = real_mp_tier(ctx, R, B, C, None, delay)
        real.append({"R": R, "B": B, "cores": C, "worker_delay:alive_delay": delay, "rc": rc, "hung": hung, "written": names})
        ctx.evaluations += 1
        if hung:
            ctx.violation("realmp_hang", real[-1])
        elif rc != 0:
            ctx.violation("realmp_fails_without_fault", real[-1])
        elif names != [RN(i) for i in range(1, R + 1)]:
            ctx.violation("realmp_output_not_exactly_once_in_order", real[-1])
        ctx.nontrivial.add(("realmp", R, B, C, delay))
    # the real batch size (1000 records per worker): 2,100 records = two full batches and a remainder, with 2 and 3 cores;
    # the second run reads them from a multi-block BGZF file > 1 MiB whose records start exactly on 64 KiB ... 1 MiB
    for (R, C, bg) in [(2100, 2, False), (2100, 3, True)]:
        rc, hung, names = real_mp_tier(ctx, R, 1000, C, None, None, bgzf_aligned=bg)
        item = {"R": R, "B": 1000, "cores": C, "bgzf_aligned_input": bg, "rc": rc, "hung": hung, "written": len(names)}
        real.append(item)
        ctx.evaluations += 1
        if hung:
            ctx.violation("realmp_hang", item)
        elif rc != 0:
            ctx.violation("realmp_fails_without_fault", item)
        elif names != [RN(i) for i in range(1, R + 1)]:
            bad = [k for k in range(min(len(names), R)) if names[k] != RN(k + 1)][:3]
            ctx.violation("realmp_output_not_exactly_once_in_order", dict(item, first_wrong_positions=bad))
        ctx.nontrivial.add(("realmp", R, 1000, C, bg))
    ctx.notes["real_multiprocessing_runs"] = real
    ctx.exhaustive = True
    ctx.assumptions += [
        "multiprocessing is replaced by the fake layer of harness/sched.py whose semantics are those modelled in Realign.tla (buffer/feeder/pipe); cross-checked by the real-multiprocessing tier in thorough mode",
        "is_alive/exitcode scans are atomic snapshots (sound because death is permanent)",
    ]
