"""C11 - realign output is exactly-once and in input order under every schedule."""
from props.realign_common import apalache_counting_proof, explore_config


def run(ctx):
    ctx.rule = (
        "behaviours of Realign.tla (transition tour covering every edge of TLC's state graph + seeded random "
        "walks) replayed in lock-step on the real realign_gaf under the deterministic scheduler, plus seeded "
        "random schedules whose recorded traces TLC validates; non-trivial = contains a queue timeout or a fault"
    )
    if ctx.thorough:
        cfgs = [
            (dict(R=3, B=1, C=2, Cap=2, F=0, kinds=[]), 200, 300),
            (dict(R=4, B=2, C=2, Cap=1, F=0, kinds=[]), 200, 300),
            (dict(R=5, B=2, C=2, Cap=2, F=0, kinds=[]), 300, 300),
            (dict(R=3, B=1, C=3, Cap=2, F=0, kinds=[]), 300, 300),
            (dict(R=2, B=1, C=1, Cap=1, F=0, kinds=[]), 20, 50),
        ]
    else:
        cfgs = [
            (dict(R=3, B=1, C=2, Cap=2, F=0, kinds=[]), 60, 150),
            (dict(R=2, B=1, C=1, Cap=1, F=0, kinds=[]), 5, 20),
        ]
    for k, nw, ns in cfgs:
        explore_config(ctx, k, nw, ns)
    apalache_counting_proof(ctx)
    ctx.exhaustive = True
    ctx.assumptions += [
        "multiprocessing is replaced by the fake layer of harness/sched.py whose semantics are those modelled in Realign.tla (buffer/feeder/pipe); cross-checked by the real-multiprocessing tier in thorough mode",
        "is_alive/exitcode scans are atomic snapshots (sound because death is permanent)",
    ]
