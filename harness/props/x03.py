"""X03 - growth of the specification: the file-system contract of the commands (spec/Frame.tla).
Every invocation of a session is recorded with before/after snapshots of the session directory; TLC validates
the frame (only declared outputs change, inputs and bystanders stay, outputs are replaced) step by step.

Not one of the 20 listed properties; deviations are EXT-DEVIATION lines."""
import hashlib
import os
import random
import shutil
import tempfile

from engine import pool_map
from readers import write_text
from props.c17 import gfa_text, make_session


def snap(d):
    out = []
    for root, dirs, files in os.walk(d):
        for f in files:
            p = os.path.join(root, f)
            with open(p, "rb") as fh:
                out.append([os.path.relpath(p, d), hashlib.sha1(fh.read()).hexdigest()[:12]])
    return sorted(out)


def run_session(job):
    sid, seed = job
    import readers

    rnd = random.Random(seed)
    d = tempfile.mkdtemp(prefix="frame_")
    cwd = os.getcwd()
    try:
        nodes, links, recs, reads = make_session(rnd, 0)
        write_text(os.path.join(d, "g.gfa"), gfa_text(nodes, links, True))
        write_text(os.path.join(d, "raw.gfa"), gfa_text(nodes, links, False))
        write_text(os.path.join(d, "in.gaf"), "\n".join(recs) + "\n")
        write_text(os.path.join(d, "in.gaf.gz"), "\n".join(recs) + "\n", "bgzf", block=400)
        with open(os.path.join(d, "reads.fa"), "w") as f:
            for n, s in reads:
                f.write(f">{n}\n{s}\n")
        with open(os.path.join(d, "paths.txt"), "w") as f:
            for l in recs[:4]:
                f.write(l.split("\t")[5] + "\n")
        with open(os.path.join(d, "h.tsv"), "w") as f:
            for k, l in enumerate(recs[:5]):
                f.write(f"{l.split(chr(9))[0]}\tH{1 + k % 2}\t{100 + k}\tchr1\n")
        # bystanders with look-alike names
        for nm, txt in (("in.gaf.gvi.bak", "keep"), ("in.gaf2", "keep"), ("g.gfa.bak", "keep"), ("raw-chr10.gfa", "keep"), ("od/raw-chr1.gfa.old", "keep"),
                        ("sorted.gaf.gsi.old", "keep"), ("in.gaf.gz.tbi", "keep")):
            os.makedirs(os.path.dirname(os.path.join(d, nm)) or d, exist_ok=True)
            with open(os.path.join(d, nm), "w") as f:
                f.write(txt)
        os.chdir(d)
        readers.CASE = "frame-no-variants"
        events, equal = [], []

        def call(cmd, argv, ins, out="", extra=(), dirout="", must=None, may_fail=False):
            before = snap(d)
            # the plain call: no harness-side variation here, the contract itself is what is observed
            from gaftools.__main__ import main
            import io
            import sys
            import logging

            root = logging.getLogger()
            saved = root.handlers[:]
            so, se = sys.stdout, sys.stderr
            sys.stdout, sys.stderr = readers._Capture(), readers._Capture()
            status = "ok"
            try:
                with readers.alarm(120):
                    main([cmd] + argv)
            except SystemExit as e:
                code = e.code if isinstance(e.code, int) else (0 if e.code is None else 1)
                status = "ok" if code == 0 else f"exit{code}"
            except BaseException as e:  # noqa
                status = type(e).__name__
            finally:
                text = sys.stdout.getvalue()
                sys.stdout, sys.stderr = so, se
                for h in root.handlers[:]:
                    if h not in saved:
                        root.removeHandler(h)
            after = snap(d)
            events.append({"cmd": cmd, "argv": argv, "ins": list(ins), "out": out, "extra": list(extra), "dir": dirout,
                           "must": list(must if must is not None else ([out] if out else []) + list(extra)), "status": status, "may_fail": may_fail,
                           "before": before, "after": after})
            return text, dict(after)

        gaf = ["in.gaf", "in.gaf.gz"][seed % 2]
        _, a = call("index", [gaf, "g.gfa"], [gaf, "g.gfa"], extra=[gaf + ".gvi"])
        call("index", [gaf, "g.gfa", "-o", "alt.gvi"], [gaf, "g.gfa"], out="alt.gvi")
        _, a1 = call("view", [gaf, "-n", "r1", "-o", "v1.gaf"], [gaf, gaf + ".gvi"], out="v1.gaf", may_fail=True)
        _, a2 = call("view", [gaf, "-n", "r1", "-o", "v1.gaf"], [gaf, gaf + ".gvi"], out="v1.gaf", may_fail=True)
        equal.append({"what": "view_twice_leaves_another_file", "a": a1.get("v1.gaf", ""), "b": a2.get("v1.gaf", "")})
        txt, _ = call("view", [gaf, "-n", "r1"], [gaf, gaf + ".gvi"], may_fail=True)
        if "v1.gaf" in a2:
            equal.append({"what": "view_stdout_differs_from_o_file", "a": hashlib.sha1(txt.encode()).hexdigest()[:12], "b": a2["v1.gaf"]})
        call("view", [gaf, "-g", "g.gfa", "-f", "stable", "-o", "s.gaf"], [gaf, "g.gfa"], out="s.gaf")
        _, b1 = call("sort", [gaf, "g.gfa", "--outgaf", "sorted.gaf"], [gaf, "g.gfa"], out="sorted.gaf", extra=["sorted.gaf.gsi"])
        _, b2 = call("sort", [gaf, "g.gfa", "--outgaf", "sorted.gaf"], [gaf, "g.gfa"], out="sorted.gaf", extra=["sorted.gaf.gsi"])
        equal.append({"what": "sort_twice_leaves_another_file", "a": b1.get("sorted.gaf", ""), "b": b2.get("sorted.gaf", "")})
        call("sort", [gaf, "g.gfa", "--outgaf", "sorted2.gaf.gz", "--bgzip", "--outind", "my.idx"], [gaf, "g.gfa"], out="sorted2.gaf.gz", extra=["my.idx"])
        _, c1 = call("stat", [gaf, "-o", "rep.txt", "--cigar"], [gaf], out="rep.txt")
        _, c2 = call("stat", [gaf, "-o", "rep.txt"], [gaf], out="rep.txt")
        _, c3 = call("stat", [gaf, "-o", "rep2.txt"], [gaf], out="rep2.txt")
        equal.append({"what": "stat_into_an_existing_file_differs_from_a_fresh_one", "a": c2.get("rep.txt", ""), "b": c3.get("rep2.txt", "")})
        call("realign", [gaf, "g.gfa", "reads.fa", "-o", "re.gaf"], [gaf, "g.gfa", "reads.fa"], out="re.gaf", extra=["reads.fa.fai"], must=["re.gaf"])
        _, f1 = call("find_path", ["g.gfa", "paths.txt", "-o", "fp.txt"], ["g.gfa", "paths.txt"], out="fp.txt")
        txt, _ = call("find_path", ["g.gfa", "paths.txt"], ["g.gfa", "paths.txt"])
        equal.append({"what": "find_path_stdout_differs_from_o_file", "a": hashlib.sha1(txt.encode()).hexdigest()[:12], "b": f1.get("fp.txt", "")})
        _, p1 = call("phase", [gaf, "h.tsv", "-o", "ph.gaf"], [gaf, "h.tsv"], out="ph.gaf")
        txt, _ = call("phase", [gaf, "h.tsv"], [gaf, "h.tsv"])
        equal.append({"what": "phase_stdout_differs_from_o_file", "a": hashlib.sha1(txt.encode()).hexdigest()[:12], "b": p1.get("ph.gaf", "")})
        call("order_gfa", ["--chromosome_order", "chr1", "--outdir", "od", "--by-chrom", "raw.gfa"], ["raw.gfa"], dirout="od", must=["od/raw-chr1.gfa", "od/raw-chr1.csv"])
        _, o1 = call("order_gfa", ["--chromosome_order", "chr1", "--outdir", "od", "raw.gfa"], ["raw.gfa"], dirout="od", must=["od/raw-complete.gfa", "od/raw-complete.csv"])
        _, o2 = call("order_gfa", ["--chromosome_order", "chr1", "--outdir", "od2/new", "raw.gfa"], ["raw.gfa"], dirout="od2", must=["od2/new/raw-complete.gfa"])
        equal.append({"what": "order_gfa_into_a_used_directory_differs_from_a_fresh_one", "a": o1.get("od/raw-complete.gfa", ""), "b": o2.get("od2/new/raw-complete.gfa", "")})
        return {"id": sid, "events": events, "equal": equal}
    finally:
        os.chdir(cwd)
        readers.CASE = None
        shutil.rmtree(d, ignore_errors=True)


def run(ctx):
    ctx.rule = (
        "design: TLC checks on an abstract file system that replacing outputs keeps the frame and is idempotent; binding: seeded "
        "sessions (a graph, a GAF plain or BGZF, reads, paths, haplotag TSV, bystander files with look-alike names) run 22 invocations of "
        "all eight commands from inside the directory; the directory tree is snapshotted (path -> content hash) before and after each; "
        "TLC (Check_Frame) checks that snapshots chain, that only declared outputs change, that declared outputs exist, and the "
        "equalities (same call twice, -o FILE vs standard output, used vs fresh output directory); non-trivial = every session"
    )
    ctx.tlc("Frame", "Frame_q.cfg", timeout=600)
    jobs = [(f"s{k}", ctx.seed * 4409 + k) for k in range(120 if ctx.thorough else 24)]
    cases = pool_map(run_session, jobs, chunk=2)
    ctx.evaluations += sum(len(c["events"]) for c in cases)
    for c in cases:
        ctx.nontrivial.add(c["id"])
    c = cases[0]
    ctx.sample({"invocations": [[e["cmd"]] + e["argv"] for e in c["events"]], "changed_by_first": [p for p in dict(map(tuple, c["events"][0]["after"])) if p not in dict(map(tuple, c["events"][0]["before"]))],
                "equalities": [q["what"] for q in c["equal"]]})
    verdicts = ctx.validate("Check_Frame", cases, cfg="Check_Frame.cfg")
    byid = {c["id"]: c for c in cases}
    for cid, v in verdicts.items():
        if v != "ok":
            c = byid[cid]
            ctx.violation(v, {"events": [{"cmd": e["cmd"], "argv": e["argv"], "status": e["status"],
                                          "changed": sorted(set(map(tuple, e["after"])) ^ set(map(tuple, e["before"])))} for e in c["events"]], "equal": c["equal"]})
