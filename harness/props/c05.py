"""C05 - see DESIGN.md section 5."""
from props.view_common import run_mode


def run(ctx):
    ctx.rule = (
        "TLC enumerates every session of the bounded ViewIndex generator (rGFA with reference chain, bubbles whose "
        "haplotype segments are not adjacent, optional back/inversion link; GAF = ALL walks of bounded length avoiding a "
        "chosen node set, two offset spans each), in unstable and stable format, plain and multi-block BGZF; the harness "
        "runs gaftools index and ALL node lists <=2 / ALL regions (plus a 60-segment chain with regions over 49/50/51/all indexed nodes); TLC (Check_View) decides; non-trivial = session with an "
        "unaligned node or a stable-format file"
    )
    run_mode(ctx, "C05")
