"""C06 - order_gfa assigns BO/NO tags that encode the bubble chain."""
from props.chain_common import finish, sessions


def run(ctx):
    ctx.rule = (
        "TLC generates chromosomes with the chain grammar Start;Unit*;End (edge, snp, ins, multi-segment, inversion, nested bubbles; "
        "tip / dangling-snp ends; ids s8.. so that lexicographic != numeric) and checks the construction against the declarative "
        "articulation points / blocks; every generated graph (single chromosomes with <=2 units, all pairs of chromosomes with <=1 unit, "
        "thorough: triples) is run through gaftools order_gfa in base / shuffled / reversed-gz / stale-tag variants, every chromosome "
        "order, and under two other PYTHONHASHSEEDs (subset); TLC (Check_Chain.V06) decides; non-trivial = >1 chromosome or >3 elements"
    )
    cfgs = ["BubbleChain_q.cfg", "BubbleChain_q2.cfg", "BubbleChain_long.cfg", "BubbleChain_w.cfg"] if not ctx.thorough else ["BubbleChain_t.cfg", "BubbleChain_q2.cfg", "BubbleChain_t3.cfg", "BubbleChain_long.cfg", "BubbleChain_w.cfg"]
    # design check: the per-chromosome loop as a machine (OrderChrom / SkipChrom) satisfies C06 and C18 on every generated graph and order
    r = ctx.tlc("OrderRun", "OrderRun_q.cfg", coverage=False)
    if not r.ok:
        ctx.design_violation("OrderRun", "OrderRun_q.cfg", r)
    jobs = sessions(ctx, cfgs, "C06", lambda k: {"hashseeds": [1, 2]} if k % (6 if ctx.thorough else 12) == 0 else {})
    # the documented default request: no --chromosome_order on a graph whose components are exactly chr1..chr22, chrX, chrY, chrM
    # (each a tip - scaffold - tip chain here); the BO ranges must follow that documented order
    default = [f"chr{i}" for i in range(1, 23)] + ["chrX", "chrY", "chrM"]
    nodes, links, chroms = [], [], []
    for k, c in enumerate(default):
        ids = [f"s{100 + 3 * ((7 * k) % 25) + j}" for j in range(3)]       # ids not in chromosome order
        nodes += [{"id": ids[j], "sn": c, "so": 2 * j, "ln": 2, "sr": 0} for j in range(3)]
        links += [{"a": ids[0], "ao": "+", "b": ids[1], "bo": "+"}, {"a": ids[1], "ao": "+", "b": ids[2], "bo": "+"}]
        chroms.append({"name": c, "bad": False, "elems": [{"k": "b", "ns": [ids[0]]}, {"k": "s", "ns": [ids[1]]}, {"k": "b", "ns": [ids[2]]}]})
    jobs.append(("default25", {"nodes": nodes, "links": links, "chroms": chroms}, "C06", ctx.seed, {"default_order": True}))
    # scale: a bubble with many alleles in the middle of a chain (NO = lexicographic rank over three-digit counts)
    from props.chain_common import scale_state
    jobs.append(("scale-240", scale_state(240 if not ctx.thorough else 1100), "C06", ctx.seed * 1009 + 5, {}))
    finish(ctx, jobs, "C06")
    ctx.exhaustive = True
    ctx.assumptions += ["node ids are rGFA-style s<k>; every alternative allele has its own SN so that the reference contig is the plurality name of its component",
                        "hash-seed variation runs in subprocesses on a subset of the sessions"]
