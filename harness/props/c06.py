"""C06 - order_gfa assigns BO/NO tags that encode the bubble chain."""
from props.chain_common import finish, sessions


def run(ctx):
    ctx.rule = (
        "TLC generates chromosomes with the chain grammar Start;Unit*;End (edge, snp, ins, multi-segment, inversion, nested bubbles; "
        "tip / dangling-snp ends; ids s8.. so that lexicographic != numeric) and checks the construction against the declarative "
        "articulation points / blocks; every generated graph (single chromosomes with <=2 units, all pairs of chromosomes with <=1 unit, "
        "thorough: triples) is run through gaftools order_gfa in base / shuffled / reversed-gz / stale-tag variants, every chromosome "
        "order, and under two other PYTHONHASHSEEDs (subset); TLC (Check_Chain.V06) decides; non-trivial = >1 chromosome or >3 elements"
    )
    cfgs = ["BubbleChain_q.cfg", "BubbleChain_q2.cfg", "BubbleChain_long.cfg", "BubbleChain_w.cfg"] if not ctx.thorough else ["BubbleChain_t.cfg", "BubbleChain_q2.cfg", "BubbleChain_t3.cfg", "BubbleChain_long.cfg", "BubbleChain_w.cfg"]
    # design check: the per-chromosome loop as a machine (OrderChrom / SkipChrom) satisfies C06 and C18 on every generated graph and order
    r = ctx.tlc("OrderRun", "OrderRun_q.cfg", coverage=False)
    if not r.ok:
        ctx.design_violation("OrderRun", "OrderRun_q.cfg", r)
    jobs = sessions(ctx, cfgs, "C06", lambda k: {"hashseeds": [1, 2]} if k % (6 if ctx.thorough else 12) == 0 else {})
    finish(ctx, jobs, "C06")
    ctx.exhaustive = True
    ctx.assumptions += ["node ids are rGFA-style s<k>; every alternative allele has its own SN so that the reference contig is the plurality name of its component",
                        "hash-seed variation runs in subprocesses on a subset of the sessions"]
