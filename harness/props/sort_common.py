"""Shared driver for C08 (order), C09 (permutation + bo/sn/iv), C10 (.gsi index) - `gaftools sort`."""
import json
import os
import random
import shutil
import tempfile
import zlib

from engine import SPEC, gen_states, pool_map
from readers import bgzf_blocks, join_lines, load_pickle, read_text, run_cli, split_tag, write_text, workdir

GRAPHS = {"a": json.load(open(os.path.join(SPEC, "data", "sort_graph.json"))), "b": json.load(open(os.path.join(SPEC, "data", "sort_graph_b.json"))),
          "c": json.load(open(os.path.join(SPEC, "data", "sort_graph_c.json"))),      # c = a with every BO + 1000 (order_gfa numbers BO across chromosomes)
          # d = a with four segments renamed to names made of more than word characters whose word prefix is ANOTHER segment
          # (s2.1, s4-b, t2#h1, s1:u) and contig names with ':' '*' '#' (a region-style name, an HLA allele, a PanSN name)
          "d": json.load(open(os.path.join(SPEC, "data", "sort_graph_d.json")))}
REN_D = json.load(open(os.path.join(SPEC, "data", "sort_rename_d.json")))


def rename(recs, variant):
    if variant != "d":
        return recs
    return [dict(r, walk=[[o, REN_D.get(n, n)] for o, n in r["walk"]]) for r in recs]

GRAPH = GRAPHS["a"]      # node ids and lengths are the same in both taggings
POOL = json.load(open(os.path.join(SPEC, "data", "sort_pool.json")))

REN_BACK = {v: k for k, v in REN_D.items()}
OPTS = [["tp:A:P", "cg:Z:{L}="], ["NM:i:0", "cg:Z:{L}=", "zq:Z:x_y#1"], ["cg:Z:{L}="], ["dv:f:0.01", "id:Z:r:1"]]


def gfa_text(variant="a"):
    out = []
    for k, (n, g) in enumerate(GRAPHS[variant].items()):
        # integers may be spelled with a sign or leading zeros (SR:i:00, BO:i:+3): every third segment is
        sp = (lambda v: ("+%d" % v if v > 0 else "%02d" % v if v == 0 else str(v))) if k % 3 == 2 else str
        line = f"S\t{n}\t*\tLN:i:{g['ln']}\tSN:Z:{g['sn']}\tSO:i:{g['so']}\tSR:i:{sp(g['sr'])}\tBO:i:{sp(g['bo'])}\tNO:i:{sp(g['no'])}"
        if k % 2 == 1:      # user tags in the lower-case namespace that look like the reserved ones: they are other tags
            line += "\tno:i:35\tbo:i:77\tsn:Z:other\tsr:i:0"
        out.append(line)
    return "\n".join(out) + "\n"


def gaf_line(k, r, pad=0):
    plen = sum(GRAPH[REN_BACK.get(n, n)]["ln"] for _, n in r["walk"])
    L = r["pe"] - r["ps"]
    opt = [o.format(L=L) for o in OPTS[k % len(OPTS)]]
    if k % 7 == 5:       # a record that went through sort before, against another ordering of the graph: its old fields are just fields
        opt += ["bo:i:77", "sn:Z:old_contig", "iv:i:1"]
    if pad:
        opt.append("zz:Z:" + "p" * pad)
    path = "".join(o + n for o, n in r["walk"])
    name = f"r{k}" if pad != 61 else f"r\u00e9ad\u00b5{k}"       # pad 61 marks the file with non-ASCII read names
    if pad != 61 and k % 3 == 2:       # read names are free text: FASTQ-style '@...', '#...', one made of digits only
        name = ["@SRR12.%d" % k, "#7_tile%d" % k, "%d" % (1000 + k)][(k // 3) % 3]
    return "\t".join([name, str(L + 3), "2", str(L + 2), "+-"[(k // 2) % 2], path, str(plen), str(r["ps"]), str(r["pe"]), str(L), str(L), str((k * 13) % 61)] + opt)


def line_starts(path, bgzf):
    """offset -> ordinal (1-based) of the line starting there; both representations at block ends"""
    m = {}
    if not bgzf:
        data = open(path, "rb").read()
        off = 0
        k = 1
        for line in data.split(b"\n")[:-1]:
            m[off] = k
            off += len(line) + 1
            k += 1
        return m, data.decode().split("\n")[:-1]
    blocks = bgzf_blocks(path)
    data = b"".join(d for _, d in blocks)
    starts = []
    acc = 0
    for co, d in blocks:
        starts.append((acc, co, len(d)))
        acc += len(d)
    off = 0
    k = 1
    for line in data.split(b"\n")[:-1]:
        for (a, co, ln) in starts:
            if a <= off < a + ln or (off == a + ln and ln > 0):
                m[(co << 16) | (off - a)] = k
        off += len(line) + 1
        k += 1
    return m, data.decode().split("\n")[:-1]


def run_sort_case(job):
    cid, recs, mode, in_storage, out_bgzip, outind, pad, block = job[:8]
    variant = job[8] if len(job) > 8 else "a"
    import readers as _rd

    _rd.CASE = str(cid)
    d = workdir("sort_", cid)
    try:
        # the graph is given plain or gzip-compressed
        ggz = zlib.crc32(("ggz" + str(cid)).encode()) % 3 == 1
        gfa = os.path.join(d, "g.gfa" + (".gz" if ggz else ""))
        write_text(gfa, gfa_text(variant), "gz" if ggz else "plain")
        recs = rename(recs, variant)
        lines = [gaf_line(k + 1, r, pad) for k, r in enumerate(recs)]
        # a BGZF file is recognised by its content: .gz, .bgz, or no suffix at all
        gaf = os.path.join(d, "in.gaf" + ([".gz", ".bgz", ""][zlib.crc32(("sfx" + str(cid)).encode()) % 3] if in_storage == "bgzf" else ""))
        write_text(gaf, join_lines(lines, cid), in_storage, block=block)
        out = os.path.join(d, "out.gaf" + (".gz" if out_bgzip else ""))
        to_stdout = mode != "C10" and not out_bgzip and not outind and pad in (0, 61) and (len(recs) + zlib.crc32(str(cid).encode())) % 3 == 1
        argv = ["sort", gaf, gfa] + ([] if to_stdout else ["--outgaf", out])
        gsi_path = out + ".gsi"
        if out_bgzip:
            argv.append("--bgzip")
        if outind:
            gsi_path = os.path.join(d, "my.index")
            argv += ["--outind", gsi_path]
        # with --outind every other case is run from inside the data directory, the index named by a bare file name
        r = run_cli(argv, timeout=60, cwd_rel=(zlib.crc32(cid.encode()) % 2 == 0) if outind else None)
        if to_stdout and r["status"] == "ok":      # no --outgaf: the sorted records go to standard output
            with open(out, "w") as f:
                f.write(r["stdout"])
        if to_stdout and pad == 61 and r["status"] == "ok" and zlib.crc32(("asc" + str(cid)).encode()) % 2 == 0:
            # (read names with non-ASCII characters) the real command line with a standard output that cannot encode them
            # (PYTHONIOENCODING=ascii, a C locale without UTF-8 mode): refusing loudly is fine, writing other records is not
            import subprocess
            import sys
            from engine import REPO

            pr = subprocess.run([sys.executable, "-m", "gaftools"] + argv, capture_output=True, timeout=120,
                                env=dict(os.environ, PYTHONPATH=REPO, PYTHONIOENCODING="ascii", PYTHONUTF8="0"))
            if pr.returncode == 0:
                with open(out, "wb") as f:
                    f.write(pr.stdout)
        c = {"id": cid, "mode": mode, "file": recs, "status": r["status"] if r["status"] == "ok" else r["status"] + ":" + r["exc"][:50],
             "out": [], "gsi": [], "gsi_exists": os.path.exists(gsi_path), "reader_ok": True,
             "cfg": {"in": in_storage, "bgzip": out_bgzip, "outind": outind, "pad": pad, "stdout": to_stdout, "graph": variant}}
        if os.path.exists(out) and r["status"] == "ok":
            starts, olines = line_starts(out, out_bgzip)
            where = {l: k + 1 for k, l in enumerate(lines)}
            for ol in olines:
                f = ol.split("\t")
                pos, extra = 0, []
                for cut in range(len(f), 11, -1):
                    p = where.get("\t".join(f[:cut]))
                    if p:
                        pos, extra = p, [split_tag(x) for x in f[cut:]]
                        break
                c["out"].append({"pos": pos, "extra": extra, "name": f[0]})
            if c["gsi_exists"]:
                g = load_pickle(gsi_path)
                from gaftools.gaf import GAF

                reader = GAF(out)
                for ctg, (a, b) in g.items():
                    if not isinstance(ctg, str):      # the index is keyed by contig NAMES; anything else is reported as such, typed
                        ctg = f"<{type(ctg).__name__}:{ctg}>"
                    a, b = (x if isinstance(x, int) else -1 for x in (a, b))
                    c["gsi"].append([ctg, starts.get(a, 0), starts.get(b, 0)])
                    for off in (a, b):
                        k = starts.get(off, 0)
                        if k:
                            try:
                                al = reader.read_line(off)
                                c["reader_ok"] = c["reader_ok"] and al is not None and al.query_name == olines[k - 1].split("\t")[0]
                            except Exception:  # noqa
                                c["reader_ok"] = False
                reader.close()
        return c
    finally:
        shutil.rmtree(d, ignore_errors=True)


def run_mode(ctx, mode):
    rnd = random.Random(ctx.seed)
    cfg = "SortGaf_t.cfg" if ctx.thorough else "SortGaf_q.cfg"
    states, r = gen_states(ctx, "SortGaf", cfg, coverage=False)
    jobs = []
    k = 0
    for st in states:
        if st["phase"] != "done":
            continue
        k += 1
        recs = [POOL[p - 1] for p in st["input"]]
        jobs.append((f"e{k}", recs, mode, "bgzf" if k % 3 == 0 else "plain", k % 2 == 0, k % 5 == 0, 0, 150))
    n_enum = len(jobs)
    # seeded random files: longer, random walks over the tagged graph, multi-block BGZF in and out
    names = list(GRAPH)
    for ri in range(400 if ctx.thorough else 60):
        n = rnd.randint(4, 40 if ctx.thorough else 12)
        recs = []
        for _ in range(n):
            if rnd.random() < 0.5:
                recs.append(rnd.choice(POOL))
            else:
                w = [[rnd.choice("><"), rnd.choice(names)] for _ in range(rnd.randint(1, 4))]
                # keep sort's own precondition: all reference nodes of one walk on one contig
                sns = {GRAPH[x]["sn"] for _, x in w if GRAPH[x]["sr"] == 0}
                if len(sns) > 1:
                    w = [s for s in w if GRAPH[s[1]]["sr"] != 0 or GRAPH[s[1]]["sn"] == sorted(sns)[0]]
                plen = sum(GRAPH[x]["ln"] for _, x in w)
                ps = rnd.randint(0, plen - 1)
                recs.append({"walk": w, "ps": ps, "pe": rnd.randint(ps + 1, plen)})
        big = ri % 10 == 0 if ctx.thorough else ri in (0, 1)    # output beyond one 64 KiB BGZF block
        if big and not ctx.thorough:
            recs = recs + [rnd.choice(POOL) for _ in range(30)]
        jobs.append((f"r{ri}", recs, mode, rnd.choice(["plain", "bgzf"]), True if big else rnd.random() < 0.5, rnd.random() < 0.3, 4000 if big else rnd.choice([0, 0, 60, 61]), 60000 if big else 200))
    # the three-sentence special cases of C10: every alignment touches a reference node / none does
    allref = [p for p in POOL if any(GRAPH[n]["sr"] == 0 for _, n in p["walk"])]
    noref = [p for p in POOL if not any(GRAPH[n]["sr"] == 0 for _, n in p["walk"])]
    for si, (pool, tag) in enumerate(((allref, "allref"), (noref, "noref"))):
        for bg in (False, True):
            jobs.append((f"s{tag}{int(bg)}", [rnd.choice(pool) for _ in range(6)], mode, "plain", bg, False, 0, 150))
    # an empty file (no records: nothing to sort, an empty index), and a file with more records than 2^16 (thorough: 2^17)
    jobs.append(("empty0", [], mode, "plain", False, False, 0, 150))
    jobs.append(("empty1", [], mode, "bgzf", True, False, 0, 150))
    nbig = 70000 if not ctx.thorough else 140000
    jobs.append(("many", [POOL[(7 * k + k // 11) % len(POOL)] for k in range(nbig)], mode, "plain", False, False, 0, 150))
    # the same node ids under two different taggings, alternating within each worker process (state kept between
    # calls - caches keyed by node id, mutable defaults - would show up as values of the other graph)
    jobs = [j + (("a", "b", "c", "d")[k % 4],) for k, j in enumerate(jobs)]
    cases = pool_map(run_sort_case, jobs, chunk=8)
    ctx.evaluations += len(cases)
    for c in cases:
        if len(c["file"]) >= 2:
            ctx.nontrivial.add((json.dumps(c["file"], sort_keys=True) if len(c["file"]) < 1000 else c["id"]) + str(c["cfg"]))
    verdicts = {}
    for variant, fname in (("a", "data/sort_graph.json"), ("b", "data/sort_graph_b.json"), ("c", "data/sort_graph_c.json"), ("d", "data/sort_graph_d.json")):
        verdicts.update(ctx.validate("Check_Sort", [c for c in cases if c["cfg"]["graph"] == variant], cfg="Check_Sort.cfg", env={"SORT_GRAPH": fname}))
    for c in cases:
        v = verdicts[c["id"]]
        if v != "ok":
            ctx.violation(v, c)
    ctx.exhaustive = True
    ctx.notes["enumerated_files"] = n_enum
    ctx.notes["random_files"] = len(jobs) - n_enum
    for c in cases[n_enum // 2 : n_enum // 2 + 1] + cases[n_enum : n_enum + 1]:
        ctx.sample({"file": c["file"], "cfg": c["cfg"], "out": c["out"], "gsi": c["gsi"]})
    ctx.assumptions += ["the tagged graph is spec/data/sort_graph.json (two chromosomes, bubbles with reference and non-reference alleles, one untagged node with BO=NO=-1)",
                        "walks never mix reference nodes of two contigs (sort asserts this)"]


def tlaps_order_lemmas(ctx):
    """TLAPS: the order on sort keys is a strict total order on records with distinct input positions (spec/tlaps/SortOrder.tla)"""
    import re
    import shutil
    import subprocess
    import time

    exe = shutil.which("tlapm")
    if not exe:
        ctx.notes["tlaps"] = "tlapm not found; lemmas skipped"
        return
    d = os.path.join(ctx.scratch, "tlaps")
    os.makedirs(d, exist_ok=True)
    shutil.copy(os.path.join(SPEC, "tlaps", "SortOrder.tla"), d)
    t0 = time.time()
    p = subprocess.run([exe, "SortOrder.tla"], cwd=d, capture_output=True, text=True, timeout=600)
    out = p.stdout + p.stderr
    m = re.search(r"All (\d+) obligations? proved", out)
    ctx.notes["tlaps_lemmas"] = {"module": "spec/tlaps/SortOrder.tla", "theorems": ["Irreflexive", "Transitive", "Asymmetric", "TotalOnDistinctPositions"],
                                 "obligations_proved": int(m.group(1)) if m else 0, "wall_s": round(time.time() - t0, 1)}
    if not m:
        ctx.violation("design:SortOrder:tlaps_obligation_failed", {"tlapm": out[-1500:]})
