"""C12 - realign emits a valid global alignment of read slice to path slice."""
import os
import random
import shutil
import tempfile
import zlib

from engine import gen_states, pool_map
from readers import read_out, parse_cigar, run_cli, split_tag, write_text, workdir, lines_of

SMALL = {"s1": "ACG", "s2": "TTA", "s3": "GC"}
SMALL_LINKS = [("s1", "+", "s2", "+"), ("s2", "+", "s3", "+"), ("s1", "+", "s3", "-"), ("s2", "+", "s2", "-")]
RC = str.maketrans("ACGT", "TGCA")


def rle(ops):
    out = []
    for o in ops:
        if out and out[-1][1] == o:
            out[-1][0] += 1
        else:
            out.append([1, o])
    return out


def fragment(runs, mode):
    if mode == 0:
        return runs
    out = []
    for n, o in runs:
        if mode == 1:
            out += [[1, o]] * n
        else:
            a = max(1, n // 2)
            out += [[a, o]] + ([[n - a, o]] if n - a else [])
    return out


def spell(seq, walk):
    return "".join(seq[n] if o == ">" else seq[n][::-1].translate(RC) for o, n in walk)


def run_batch(job):
    bid, seq, links, recs = job[:4]  # recs: dict(id, walk, ps, pe, read, ops, frag, long)
    cores = job[4] if len(job) > 4 else 1
    import readers as _rd

    _rd.CASE = str(bid)
    d = workdir("align_", bid)
    try:
        gfa = os.path.join(d, "g.gfa")
        write_text(gfa, "".join(f"S\t{n}\t{s}\tLN:i:{len(s)}\n" for n, s in seq.items()) + "".join(f"L\t{a}\t{ao}\t{b}\t{bo}\t0M\n" for a, ao, b, bo in links))
        fa = os.path.join(d, "r.fa")
        gaf = os.path.join(d, "a.gaf")
        lines = []
        # read names are free text (some start with '#' or '@'); and a read may have SEVERAL alignments: every sixth record whose
        # alignment starts with two matches is followed by a second record of the same read that starts one base further in
        recs = [dict(r, id=(["", "", "#", "", "@"][k % 5] + r["id"])) for k, r in enumerate(recs)]
        more = []
        for k, r in enumerate(recs):
            more.append(dict(r, _k=k, _skip=0))
            if k % 6 == 2 and not r.get("long") and r["ops"][:2] == ["=", "="] and r["pe"] - r["ps"] > 2 and not str(bid).startswith("X"):
                more.append(dict(r, _k=k, _skip=1, read=r["read"][1:], ops=r["ops"][1:], ps=r["ps"] + 1))
        recs = more
        with open(fa, "w") as f:
            for r in recs:
                k = r["_k"]
                left, right = "GT"[: k % 3], "CA"[: (k + 1) % 3]
                if r["_skip"]:
                    left = left + recs[recs.index(r) - 1]["read"][:1]      # the same read: its first aligned base now belongs to the flank
                else:
                    f.write(f">{r['id']}\n{left}{r['read']}{right}\n")
                runs = fragment(rle(r["ops"]), r["frag"])
                cg = "".join(f"{n}{o}" for n, o in runs)
                plen = len(spell(seq, r["walk"]))
                path = "".join(o + n for o, n in r["walk"])
                nm = sum(1 for o in r["ops"] if o == "=")
                cols = [r["id"], str(len(left) + len(r["read"]) + len(right)), str(len(left)), str(len(left) + len(r["read"])), "-" if k % 5 == 4 else "+", path,      # realign takes the path as written, whatever the strand column says
                        str(plen), str(r["ps"]), str(r["pe"]), str(nm), str(len(r["ops"])), str((k * 11) % 61)]
                opt = ["tp:A:P", f"cg:Z:{cg}", "NM:i:2"] if k % 2 else [f"cg:Z:{cg}", "zd:Z:x1"]
                if k % 5 == 1:      # an optional field may have an EMPTY value (Z)
                    opt.append("ce:Z:")
                if k % 4 == 3:      # "all other ... optional fields are unchanged": a free-text comment that ends in a blank, last on the line
                    opt.append("co:Z:lane 7, trimmed ")
                lines.append("\t".join(cols + opt))
        write_text(gaf, "\n".join(lines) + "\n")
        if zlib.crc32(("decoy" + str(bid)).encode()) % 3 == 0 and recs:
            # an earlier call in the same process on ANOTHER graph stored under the same file name (an earlier version of it):
            # nothing of it may survive into the real call
            real = read_out(gfa)
            comp = {"A": "C", "C": "G", "G": "T", "T": "A"}
            with open(gfa, "w") as f:
                for n, sq in seq.items():
                    sq2 = "".join(comp.get(c, c) for c in sq)
                    f.write(f"S\t{n}\t{sq2}\tLN:i:{len(sq2)}\n")
                for a, ao, b, bo in links:
                    f.write(f"L\t{a}\t{ao}\t{b}\t{bo}\t0M\n")
            dg = os.path.join(d, "decoy.gaf")
            write_text(dg, lines[0] + "\n")
            run_cli(["realign", dg, gfa, fa, "-o", os.path.join(d, "decoy_out.gaf"), "-c", "1"], timeout=120)
            with open(gfa, "w") as f:
                f.write(real)
        out = os.path.join(d, "o.gaf")
        res = run_cli(["realign", gaf, gfa, fa, "-o", out, "-c", str(cores)], timeout=600)
        import gc

        gc.collect()
        olines = {}
        if os.path.exists(out):
            for l in lines_of(read_out(out)):
                olines.setdefault(l.split("\t")[0], []).append(l)
        cases = []
        # the records come out in input order (one per input record): the sequence of read names is the same
        in_order = [l.split("\t")[0] for l in lines] == ([l.split("\t")[0] for l in lines_of(read_out(out))] if os.path.exists(out) else [])
        st = res["status"] if res["status"] == "ok" else res["status"] + ":" + res["exc"][:50]
        for r, il in zip(recs, lines):
            fi = il.split("\t")
            ol = (olines.get(r["id"]) or [None]).pop(0) if olines.get(r["id"]) else None      # the k-th record of a read with the k-th output line of that read
            fo = ol.split("\t") if ol else []
            def cg_of(f):
                x = [t for t in f[12:] if t.startswith("cg:Z:")]
                return parse_cigar(x[0][5:]) if x else []
            cases.append({"id": f"{bid}.{r['id']}" + ("+1" if r.get("_skip") else ""), "status": st, "missing": ol is None, "seq": seq, "walk": r["walk"], "ps": r["ps"], "pe": r["pe"],
                          "read": r["read"], "icg": cg_of(fi), "ocg": cg_of(fo), "icols": fi[:12], "ocols": fo[:12] if fo else [""] * 12,
                          "iopt": [t for t in fi[12:] if not t.startswith("cg:Z:")], "oopt": [t for t in fo[12:] if not t.startswith("cg:Z:")],
                          "icgpos": ([j + 1 for j, t in enumerate(fi[12:]) if t.startswith("cg:Z:")] or [0])[0],
                          "ocgpos": ([j + 1 for j, t in enumerate(fo[12:]) if t.startswith("cg:Z:")] or [0])[0],
                          "long": r.get("long", False), "in_order": in_order})
        return cases
    finally:
        shutil.rmtree(d, ignore_errors=True)


def random_batch(rnd, bid, n, big, tiny_only=False):
    # (segment names are free text: some have characters that are no word characters)
    seq = {["n1", "n2.1", "n3-b", "n4"][k - 1]: "".join(rnd.choice("ACGT") for _ in range(rnd.randint(150, 400) if big else rnd.randint(5, 40))) for k in range(1, 5)}
    names = list(seq)
    links = [(a, ao, b, bo) for a in names for b in names for ao in "+-" for bo in "+-"]
    recs = []
    for k in range(n):
        walk = [[rnd.choice("><"), rnd.choice(names)] for _ in range(rnd.randint(1, 3))]
        p = spell(seq, walk)
        ps = rnd.randint(0, len(p) // 4)
        pe = rnd.randint(max(ps + 1, 3 * len(p) // 4), len(p))
        ref = p[ps:pe]
        ops, read, j = [], [], 0
        style = rnd.choice(["subs", "indels", "sv", "clean", "balanced"]) if big or (k % 3 and not tiny_only) else "tiny"
        if style == "balanced" and len(ref) >= 30:
            # a deletion and, a few bases later, an insertion of the same size (or the other way round): read slice and
            # path slice have EQUAL length, the gapless alignment is valid but far from optimal
            m = rnd.randint(1, 3)
            a = rnd.randint(3, len(ref) - 26)
            gap = rnd.randint(5, 20)
            ins = "".join(rnd.choice("ACGT") for _ in range(m))
            if rnd.random() < 0.5:
                rd = ref[:a] + ref[a + m : a + m + gap] + ins + ref[a + m + gap :]
                ops = ["="] * a + ["D"] * m + ["="] * gap + ["I"] * m + ["="] * (len(ref) - a - m - gap)
            else:
                rd = ref[:a] + ins + ref[a : a + gap] + ref[a + gap + m :]
                ops = ["="] * a + ["I"] * m + ["="] * gap + ["D"] * m + ["="] * (len(ref) - a - gap - m)
            recs.append({"id": f"q{k}", "walk": walk, "ps": ps, "pe": pe, "read": rd, "ops": ops, "frag": rnd.choice([0, 0, 1])})
            continue
        if style == "tiny":
            # unrelated short read and path slice with an arbitrary VALID input alignment (random monotone lattice path):
            # the optimal alignment may have no '=' column at all although the input CIGAR has some
            pe = min(len(p), ps + rnd.randint(1, 4))
            ref = p[ps:pe]
            rd = "".join(rnd.choice("ACGT") for _ in range(rnd.randint(1, 4)))
            best = None
            for _try in range(4):  # of four random valid alignments keep the one claiming most matches
                i = j = 0
                ops = []
                while i < len(rd) or j < len(ref):
                    moves = (["M"] if i < len(rd) and j < len(ref) else []) + (["I"] if i < len(rd) else []) + (["D"] if j < len(ref) else [])
                    m = rnd.choice(moves)
                    if m == "M":
                        ops.append("=" if rd[i] == ref[j] else "X")
                        i += 1
                        j += 1
                    elif m == "I":
                        ops.append("I")
                        i += 1
                    else:
                        ops.append("D")
                        j += 1
                if best is None or ops.count("=") > best.count("="):
                    best = ops
            ops = best
            recs.append({"id": f"q{k}", "walk": walk, "ps": ps, "pe": pe, "read": rd, "ops": ops, "frag": rnd.choice([0, 1])})
            continue
        svpos = sorted(rnd.sample(range(len(ref)), 2)) if style == "sv" and len(ref) > 300 else []
        while j < len(ref):
            x = rnd.random()
            if svpos and j == svpos[0]:
                m = rnd.randint(60, 110)
                read += [rnd.choice("ACGT") for _ in range(m)]
                ops += ["I"] * m
                svpos[0] = -1
            elif svpos and j == svpos[1] and len(ref) - j > 120:
                m = rnd.randint(60, 110)
                ops += ["D"] * m
                j += m
                svpos[1] = -1
            elif style in ("subs", "indels", "sv") and x < 0.04:
                read.append({"A": "C", "C": "G", "G": "T", "T": "A"}[ref[j]])
                ops.append("X")
                j += 1
            elif style == "indels" and x < 0.07:
                m = rnd.randint(1, 6)
                read += [rnd.choice("ACGT") for _ in range(m)]
                ops += ["I"] * m
            elif style == "indels" and x < 0.10:
                m = min(rnd.randint(1, 6), len(ref) - j)
                ops += ["D"] * m
                j += m
            else:
                read.append(ref[j])
                ops.append("=")
                j += 1
        if not read:
            read, ops = [ref[0]], ["="] + ["D"] * (len(ref) - 1)
        recs.append({"id": f"q{k}", "walk": walk, "ps": ps, "pe": pe, "read": "".join(read), "ops": ops, "frag": rnd.choice([0, 0, 1, 2])})
    return (bid, seq, links, recs)


def run(ctx):
    rnd = random.Random(ctx.seed)
    ctx.rule = (
        "TLC runs the alignment automaton generatively: every path slice (<=5 bases quick / <=6 thorough) spelled along walks with "
        "forward and reverse steps and every offset, every read derived by <=1 (quick) / <=2 (thorough) edits, with the input CIGAR "
        "minimal or fragmented; gaftools realign runs on all of them plus seeded random reads (substitutions, short indels, >=60 bp "
        "insertion + deletion pairs); TLC (Check_Align) replays each output CIGAR through the automaton and compares gap-affine costs; "
        "non-trivial = record with >= 1 edit"
    )
    states, r = gen_states(ctx, "MC_Align", "Align_t.cfg" if ctx.thorough else "Align_q.cfg", coverage=False)
    recs = []
    for k, st in enumerate(s for s in states if s["phase"] == "done"):
        recs.append({"id": f"e{k}", "walk": [list(x) for x in st["walk"]], "ps": st["ps"], "pe": st["pe"], "read": st["read"], "ops": list(st["ops"]), "frag": k % 3})
        if st["ned"] > 0:
            ctx.nontrivial.add(("e", k))
    per = 400
    jobs = [(f"E{j}", SMALL, SMALL_LINKS, recs[j * per : (j + 1) * per]) for j in range((len(recs) + per - 1) // per)]
    n_enum = len(recs)
    nb = 40 if ctx.thorough else 6
    for b in range(nb):
        jobs.append(random_batch(rnd, f"R{b}", 60, big=(b % 2 == 0)))
    for b in range(8 if ctx.thorough else 2):
        jobs.append(random_batch(rnd, f"T{b}", 300, big=False, tiny_only=True))
    # the 60,000-base boundary: 60,001 aligned read bases are written back unchanged, 60,000 and 59,999 are realigned
    big = "".join(rnd.choice("ACGT") for _ in range(60010))
    jobs.append(("L", {"b1": big, "b2": "ACGTAC"}, [("b1", "+", "b2", "+")],
                 [{"id": "long", "walk": [[">", "b1"]], "ps": 3, "pe": 60004, "read": big[3:60004], "ops": ["="] * 60001, "frag": 0, "long": True},
                  {"id": "exact", "walk": [[">", "b1"]], "ps": 2, "pe": 60002, "read": big[2:60002], "ops": ["="] * 60000, "frag": 0},
                  {"id": "below", "walk": [[">", "b1"]], "ps": 5, "pe": 60004, "read": big[5:60004], "ops": ["="] * 59999, "frag": 2},
                  {"id": "short", "walk": [[">", "b1"], [">", "b2"]], "ps": 60000, "pe": 60016, "read": big[60000:] + "ACGTAC", "ops": ["="] * 16, "frag": 1}]))
    # more records than one round of worker batches holds (1000 per core): 2,100 short reads with 1 and with 2 cores
    for cores in (1, 2):
        b = random_batch(rnd, f"M{cores}", 2100 + (cores - 1) * 3, big=False)      # (the leftover batch is not a multiple of the cores)
        jobs.append(b + (cores,))
    # ... and files whose record count is an EXACT multiple of the batch size but not of batch size x cores: full batches are
    # waiting for company when the input ends
    for tag, n, cores in (("X1", 1000, 2), ("X2", 2000, 3)):
        b = random_batch(rnd, tag, n, big=False)
        jobs.append(b + (cores,))
    res = pool_map(run_batch, jobs, chunk=1)
    cases = [c for cs in res for c in cs]
    ctx.evaluations += len(cases)
    for c in cases:
        if c["id"].startswith("R") and c["icg"] and len(c["icg"]) > 1:
            ctx.nontrivial.add(c["id"])
    verdicts = ctx.validate("Check_Align", cases, cfg="Check_Align.cfg")
    for c in cases:
        ctx.record(verdicts[c["id"]], c)
    ctx.exhaustive = True
    ctx.notes.update({"enumerated_records": n_enum, "random_records": len(cases) - n_enum})
    ctx.sample({k: cases[n_enum // 2][k] for k in ("walk", "ps", "pe", "read", "icg", "ocg", "ocols")})
    ctx.assumptions += ["penalties: mismatch 4, gap opening 6, gap extension 2 (pywfa defaults, which realign uses)", "upper-case ACGT sequences",
                        "the 60,000-base pass-through boundary is exercised in thorough mode only"]
