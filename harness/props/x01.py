"""X01 - growth of the specification beyond the listed properties: the remaining public operations of
gaftools.gfa.GFA and the protocol of the per-node `visited` flag (spec/GfaQueries.tla).

Not one of the 20 listed properties: a deviation is printed as EXT-DEVIATION (never as a VIOLATION of a
property), evidence goes to evidence_ext/."""
import itertools
import random

from engine import gen_states, pool_map
from tlaval import parse_action_label
import tours
from props.c15 import name, unname, project

EMPTY_Q = {"asked": False, "exc": "", "dfs": [], "lists": [], "walks": [], "bicc_one_of": False, "bicc": {"blocks": [], "artic": []}}


def pure_queries(g):
    q = {"asked": True, "exc": "", "dfs": [], "lists": [], "walks": [], "bicc_one_of": False, "bicc": {"blocks": [], "artic": []}}
    try:
        ids = sorted(g.nodes)
        for n in ids:
            q["dfs"].append({"s": unname(n), "order": [unname(x) for x in g.dfs(n)]})
        if len(ids) <= 4:
            for k in (2, 3):
                for p in itertools.product(ids, repeat=k):
                    p = list(p)
                    item = {"p": [unname(x) for x in p], "is_path": bool(g.list_is_path(p)), "err": False, "steps": []}
                    try:
                        s = g.return_gfa_path(p)
                        item["steps"] = [[unname(t[:-1]), t[-1]] for t in s.split(",")]
                    except ValueError:
                        item["err"] = True
                    q["lists"].append(item)
            for a, b in itertools.product([(o, n) for o in "><" for n in ids], repeat=2):
                q["walks"].append({"w": [[a[0], unname(a[1])], [b[0], unname(b[1])]], "ok": bool(g.path_exists([a[0] + a[1], b[0] + b[1]]))})
        if len(ids) <= 7:
            blocks, artic = g.biccs()
            q["bicc_one_of"] = True
            q["bicc"] = {"blocks": [sorted(unname(n) for n in b) for b in blocks], "artic": sorted(unname(n) for n in artic)}
    except Exception as e:  # noqa
        q["exc"] = f"{type(e).__name__}: {e}"[:200]
    return q


def apply_op(g, o):
    op = o["op"]
    if op == "AddNode":
        g.add_node(name(o["n"]), "ACGT"[: 1 + o["n"] % 4])
    elif op == "DelNode":
        g.remove_node(name(o["n"]))
    elif op == "AddLink":
        g.add_edge(name(o["a"]), o["ao"], name(o["b"]), o["bo"], o["ov"], list(o["tg"]) or None)
    elif op == "RemoveEdge":
        g.remove_edge((name(o["a"]), o["sa"], name(o["b"]), o["sb"], o["ov"]))
    elif op == "RemoveLonely":
        g.remove_lonely_nodes()
    elif op == "SetVisited":
        g.set_visited(o["b"])
    elif op == "FindComponent":
        return sorted(unname(n) for n in g.find_component(name(o["n"])))
    elif op == "AllComponents":
        return [sorted(unname(n) for n in c) for c in g.all_components()]
    elif op == "Bfs":
        return sorted(unname(n) for n in g.bfs(name(o["n"]), size=o["size"], reset_visited=o["reset"]))
    else:
        raise ValueError(op)
    return []


def run_history(job):
    cid, ops, qat = job       # qat: indices of the events at which the pure queries are asked
    from gaftools.gfa import GFA

    g = GFA()
    events = []
    for k, o in enumerate(ops):
        ev = {"o": o, "exc": "", "ret": [], "proj": {"nodes": [], "half": [], "etags": [], "vis": []}, "q": EMPTY_Q}
        try:
            ev["ret"] = apply_op(g, o)
            ev["proj"] = project(g)
            ev["proj"]["vis"] = sorted(unname(n) for n, nd in g.nodes.items() if nd.visited)
        except Exception as e:  # noqa
            ev["exc"] = f"{type(e).__name__}: {e}"[:200]
            events.append(ev)
            break
        if k in qat:
            ev["q"] = pure_queries(g)
        events.append(ev)
    return {"id": cid, "events": events}


def label_to_op(lab):
    t, a = parse_action_label(lab)
    o = dict(a[0])
    if "tg" in o:
        o["tg"] = list(o["tg"])
    return o


def random_history(rnd, n, length):
    """seeded random call history on up to n nodes, kept enabled by a shadow of the node set / half-edges"""
    ops, nodes, links = [], set(), []
    for _ in range(length):
        x = rnd.random()
        if x < 0.25 and len(nodes) < n:
            k = rnd.choice([i for i in range(1, n + 1) if i not in nodes])
            nodes.add(k)
            ops.append({"op": "AddNode", "n": k})
        elif x < 0.55 and nodes:
            a, b = rnd.choice(sorted(nodes)), rnd.choice(sorted(nodes))
            ao, bo = rnd.choice("+-"), rnd.choice("+-")
            ov = rnd.choice([0, 0, 3])
            links.append((a, 1 if ao == "+" else 0, b, 0 if bo == "+" else 1, ov))
            ops.append({"op": "AddLink", "a": a, "ao": ao, "b": b, "bo": bo, "ov": ov, "tg": rnd.choice([[], [], ["xa:i:1"]])})
        elif x < 0.60 and nodes:
            k = rnd.choice(sorted(nodes))
            nodes.discard(k)
            links = [l for l in links if k not in (l[0], l[2])]
            ops.append({"op": "DelNode", "n": k})
        elif x < 0.65 and links:
            l = rnd.choice(links)
            links = [m for m in links if not (m == l or (m[2], m[3], m[0], m[1], m[4]) == l)]
            if rnd.random() < 0.5:
                l = (l[2], l[3], l[0], l[1], l[4])
            ops.append({"op": "RemoveEdge", "a": l[0], "sa": l[1], "b": l[2], "sb": l[3], "ov": l[4]})
        elif x < 0.68:
            touched = {l[0] for l in links} | {l[2] for l in links}
            nodes &= touched
            ops.append({"op": "RemoveLonely"})
        elif x < 0.74:
            ops.append({"op": "SetVisited", "b": rnd.random() < 0.3})
        elif x < 0.84 and nodes:
            ops.append({"op": "FindComponent", "n": rnd.choice(sorted(nodes))})
        elif x < 0.92:
            ops.append({"op": "AllComponents"})
        elif nodes:
            ops.append({"op": "Bfs", "n": rnd.choice(sorted(nodes)), "size": rnd.choice([0, 0, 1, 2, 3]), "reset": rnd.random() < 0.3})
    return ops


def run(ctx):
    rnd = random.Random(ctx.seed)
    ctx.rule = (
        "call histories of the real gaftools.gfa.GFA object: a transition tour over EVERY edge of the bounded GfaQueries "
        "state graph (add/delete node, add link, remove_edge, remove_lonely_nodes, set_visited, find_component, "
        "all_components, bfs with size and reset) plus seeded random histories on up to 7 nodes with all side "
        "combinations, parallel links and link tags; after every call the object is projected (nodes, adjacency, link "
        "tags, visited flags), the returned value recorded and the pure queries asked (dfs order from every node, "
        "list_is_path / return_gfa_path on all node lists <= 3, path_exists on all step pairs, biccs on the whole graph); "
        "TLC (Check_Queries) folds each history through QApply; non-trivial = history with a flag-using query made "
        "while some flag is set"
    )
    cfgs = ["GfaQueries_t.cfg", "GfaQueries_t2.cfg"] if ctx.thorough else ["GfaQueries_q.cfg", "GfaQueries_q2.cfg"]
    jobs = []
    notes = []

    def qat(n):      # pure queries after the last call and after one seeded earlier call
        return sorted({n - 1, rnd.randrange(n)})

    for cfg in cfgs:
        (nodes, edges, init), r = gen_states(ctx, "MC_GfaQueries", cfg, dot=True, coverage=True, timeout=1500)
        g = tours.Graph({k: None for k in nodes}, edges, init)
        g._to_term = {}
        if g.nedges <= (150000 if ctx.thorough else 60000):
            beh = tours.transition_tour(g, max_len=16)
            covered = "every edge (transition tour)"
        else:
            nb = 8000 if ctx.thorough else 1500
            beh = tours.random_walks(g, nb, ctx.seed, max_len=14)
            covered = f"{nb} seeded random behaviours"
        tag = cfg[11:-4]
        for bi, b in enumerate(beh):
            ops = [label_to_op(l) for l, _ in b]
            if ops:
                jobs.append((f"{tag}h{bi}", ops, qat(len(ops))))
        notes.append({"cfg": cfg, "states": r.distinct, "edges": g.nedges, "behaviours": len(beh), "coverage": covered})
    ctx.notes["state_graphs"] = notes
    for k in range(3000 if ctx.thorough else 400):
        ops = random_history(rnd, rnd.randint(3, 7), rnd.randint(6, 24))
        if ops:
            jobs.append((f"r{k}", ops, list(range(len(ops))) if k % 4 == 0 else qat(len(ops))))
    cases = pool_map(run_history, jobs, chunk=64)
    ctx.evaluations += len(cases)
    for c in cases:
        dirty = False
        for e in c["events"]:
            if dirty and e["o"]["op"] in ("FindComponent", "AllComponents", "Bfs"):
                ctx.nontrivial.add(c["id"])
            dirty = bool(e["proj"]["vis"])
    c = max(cases, key=lambda c: len(c["events"]))
    ctx.sample({"history": [{"call": e["o"], "returned": e["ret"], "visited_after": e["proj"]["vis"]} for e in c["events"]]})
    verdicts = ctx.validate("Check_Queries", cases, cfg="Check_Queries.cfg")
    byid = {c["id"]: c for c in cases}
    for cid, v in verdicts.items():
        if v != "ok":
            c = byid[cid]
            ctx.violation(v, {"ops": [e["o"] for e in c["events"]], "last_event": c["events"][-1]})
