"""C17 - results do not depend on input compression."""
import glob
import os
import zlib
import random
import shutil
import tempfile

from engine import pool_map
from readers import read_out, bgzf_blocks, line_at, load_pickle, read_text, run_cli, write_text, workdir

RC = str.maketrans("ACGT", "TGCA")


def make_session(rnd, pad):
    k = rnd.randint(3, 6)
    nodes, links = {}, []
    so = 0
    for i in range(1, k + 1):
        seq = "".join(rnd.choice("ACGT") for _ in range(rnd.randint(12, 30)))
        nodes[f"r{i}"] = {"seq": seq, "sn": "chr1", "so": so, "sr": 0, "bo": 2 * (i - 1), "no": 0}
        so += len(seq)
    for i in range(1, k):
        links.append((f"r{i}", "+", f"r{i+1}", "+"))
        if rnd.random() < 0.7:
            seq = "".join(rnd.choice("ACGT") for _ in range(rnd.randint(8, 20)))
            nodes[f"a{i}"] = {"seq": seq, "sn": f"alt{i}", "so": 0, "sr": 1, "bo": 2 * i - 1, "no": 1}
            links += [(f"r{i}", "+", f"a{i}", "+"), (f"a{i}", "+", f"r{i+1}", "+")]
    succ = {}
    for a, _, b, _ in links:
        succ.setdefault(a, []).append(b)
    recs, reads = [], []
    for q in range(rnd.randint(8, 25)):
        cur = rnd.choice([n for n in nodes if n in succ])
        walk = [cur]
        while len(walk) < rnd.randint(1, 4) and walk[-1] in succ:
            walk.append(rnd.choice(succ[walk[-1]]))
        fwd = rnd.random() < 0.7
        steps = [(">", n) for n in walk] if fwd else [("<", n) for n in reversed(walk)]
        spelled = "".join(nodes[n]["seq"] if o == ">" else nodes[n]["seq"][::-1].translate(RC) for o, n in steps)
        ps = rnd.randint(0, len(nodes[steps[0][1]]["seq"]) - 1)
        pe = len(spelled) - rnd.randint(0, len(nodes[steps[-1][1]]["seq"]) - 1)
        if pe <= ps + 3:
            ps, pe = 0, len(spelled)
        read = list(spelled[ps:pe])
        for _ in range(rnd.randint(0, 2)):
            j = rnd.randrange(len(read))
            read[j] = {"A": "C", "C": "G", "G": "T", "T": "A"}[read[j]]
        read = "".join(read)
        L = len(read)
        name = f"q{q}"
        gafname = name + (" ch=7 comment" if q % 4 == 2 else "")      # GraphAligner keeps the FASTQ comment: a blank inside column 1
        opt = [f"tp:A:{rnd.choice('PPS')}", f"cg:Z:{L}=", "NM:i:1"] + ([f"zz:Z:{'p' * pad}"] if pad else [])
        if not pad and q % 5 == 4:      # a free-text last field ending in white space that is not ASCII (no-break / ideographic space)
            opt.append("co:Z:sample 7" + ["\u00a0", "\u3000", " \u00a0", " ", "  "][q // 5 % 5])      # ... or in plain blanks
        recs.append("\t".join([gafname, str(L), "0", str(L), "+", "".join(o + n for o, n in steps), str(len(spelled)), str(ps), str(pe), str(L), str(L), str(rnd.choice([0, 30, 60]))] + opt))
        reads.append((name, read))
    return nodes, links, recs, reads


def gfa_text(nodes, links, tagged):
    out = []
    for n, g in nodes.items():
        tags = [f"LN:i:{len(g['seq'])}", f"SN:Z:{g['sn']}", f"SO:i:{g['so']}", f"SR:i:{g['sr']}"] + ([f"BO:i:{g['bo']}", f"NO:i:{g['no']}"] if tagged else [])
        out.append("\t".join(["S", n, g["seq"]] + tags))
    out = out[: len(out) // 2] + [""] + out[len(out) // 2 :] + ["", "# links"]      # blank and comment lines are legal
    out += [f"L\t{a}\t{ao}\t{b}\t{bo}\t0M" for a, ao, b, bo in links]
    text = "\n".join(out) + "\n"
    if BOM[0]:      # a graph saved by an editor that writes a byte order mark: whatever that does, it does it to .gfa and .gfa.gz alike
        text = "\ufeffS\tbomseg\tA\n" + text      # (the marked line is no S line for either reader: the graph proper is intact)
    return text


BOM = [False]


def names_at(path, offs, bgzf):
    out, ok = [], True
    from gaftools.gaf import GAF

    rd = GAF(path)
    for off in offs:
        try:
            l = line_at(path, off, bgzf)
            a = rd.read_line(off)
            out.append(l.split("\t")[0])
            ok = ok and a is not None and a.query_name == l.split("\t")[0].split(" ")[0]      # (the parser cuts the name at its first blank)
        except Exception:  # noqa
            out.append("UNRESOLVED")
            ok = False
    rd.close()
    return out, ok


def battery(d, tag, nodes, links, recs, reads, gs, fs, block, eol="\n", zsuf=".gz"):
    """run every GAF/graph consuming command under one configuration; returns {cmd: (status, value, resolved)}"""
    res = {}
    bg = gs == "bgzf"
    gfa = os.path.join(d, f"{tag}.gfa" + (".gz" if fs == "gz" else ""))
    # a compressed graph is a gzip file: one stream as `gzip` writes it, or many members as `bgzip` does (here in small blocks)
    gstore = ("bgzf" if zlib.crc32(tag.encode() + str(block).encode()) % 2 else "gz") if fs == "gz" else "plain"
    write_text(gfa, gfa_text(nodes, links, True), gstore, block=120)
    raw = os.path.join(d, f"{tag}_raw.gfa" + (".gz" if fs == "gz" else ""))
    write_text(raw, gfa_text(nodes, links, False), "gz" if fs == "gz" else "plain")
    # the plain GAF and its BGZF copy sit side by side under one name (in.gaf / in.gaf.gz), as they do for a user who
    # compresses a file next to the original; every derived file of a configuration carries its tag
    gaf = os.path.join(d, "in.gaf" + (zsuf if bg else ""))      # compressed GAFs are recognised by content: .gz, .bgz, .GZ
    write_text(gaf, "\n".join(recs) + eol, gs, block=block)      # eol "": the last record is not newline-terminated
    fa = os.path.join(d, f"{tag}.fa")
    with open(fa, "w") as f:
        for n, s in reads:
            f.write(f">{n}\n{s}\n")

    def put(cmd, r, value, resolved=True):
        res[cmd] = {"status": r["status"] if r["status"] == "ok" else r["status"] + ":" + r["exc"][:50], "value": value, "resolved": resolved}

    # index + view
    r = run_cli(["index", gaf, gfa])
    val, okall = [], True
    if r["status"] == "ok" and not os.path.exists(gaf + ".gvi"):
        # the index is not where the documentation says it is written (<GAF>.gvi): nothing to resolve, reported as such
        val, okall = ["no index file at the documented default location"], False
    elif r["status"] == "ok":
        ind = load_pickle(gaf + ".gvi")
        for key in sorted(k for k in ind if k != "ref_contig"):
            nm, ok = names_at(gaf, ind[key], bg)
            val.append([list(key), sorted(set(nm))])
            okall = okall and ok
    put("index", r, val, okall)
    for qi, args in enumerate([["-n", "r1"], ["-n", "r2", "-n", "a1"], ["-r", "chr1:5-40"], ["-r", "chr1:0-3", "-r", "chr1:60-61"], ["-n", "r2", "-g", gfa, "-f", "stable"]]):
        o = os.path.join(d, f"{tag}_v{qi}")
        r = run_cli(["view", gaf, "-o", o] + args)
        put(f"view{qi}", r if r["status"] != "exit" else dict(r, status="ok"), (read_out(o) if os.path.exists(o) else "") + f"|{r['status']}")
    o = os.path.join(d, f"{tag}_vall")
    r = run_cli(["view", gaf, "-o", o])       # the whole file, as it is
    put("view_all", r, read_out(o) if os.path.exists(o) else "")
    st = os.path.join(d, f"{tag}_st.gaf")
    r = run_cli(["view", gaf, "-g", gfa, "-f", "stable", "-o", st])
    put("view_stable", r, read_out(st) if os.path.exists(st) else "")
    if r["status"] == "ok":
        st2 = os.path.join(d, f"{tag}_st2.gaf" + (".gz" if bg else ""))
        write_text(st2, read_out(st), gs, block=block)
        o = os.path.join(d, f"{tag}_us")
        r = run_cli(["view", st2, "-g", gfa, "-f", "unstable", "-o", o])
        put("view_unstable", r, read_out(o) if os.path.exists(o) else "")
        r = run_cli(["index", st2, gfa])
        val, okall = [], True
        if r["status"] == "ok" and not os.path.exists(st2 + ".gvi"):
            val, okall = ["no index file at the documented default location"], False
        elif r["status"] == "ok":
            ind = load_pickle(st2 + ".gvi")
            for key in sorted(k for k in ind if k != "ref_contig"):
                nm, ok = names_at(st2, ind[key], bg)
                val.append([list(key), sorted(set(nm))])
                okall = okall and ok
        put("index_stable", r, val, okall)
    # sort (plain and bgzip output) + gsi
    for ob in (False, True):
        o = os.path.join(d, f"{tag}_sorted{int(ob)}.gaf" + (".gz" if ob and zsuf == ".gz" else ""))      # --bgzip adds no suffix of its own
        r = run_cli(["sort", gaf, gfa, "--outgaf", o] + (["--bgzip"] if ob else []))
        val, ok = "", True
        if r["status"] == "ok" and not (os.path.exists(o) and os.path.exists(o + ".gsi")):
            val, ok = ["sorted file or its .gsi missing"], False
        elif r["status"] == "ok":
            val = [read_text(o)]
            g = load_pickle(o + ".gsi")
            for ctg in sorted(g):
                nm, ok2 = names_at(o, g[ctg], ob)
                val.append([ctg, nm])
                ok = ok and ok2
        put(f"sort{int(ob)}", r, val, ok)
    for ci, extra in enumerate(([], ["--cigar"])):
        o = os.path.join(d, f"{tag}_stat{ci}")
        r = run_cli(["stat", gaf, "-o", o] + extra)
        put(f"stat{ci}", r, read_out(o) if os.path.exists(o) else "")
    o = os.path.join(d, f"{tag}_re.gaf")
    r = run_cli(["realign", gaf, gfa, fa, "-o", o], timeout=120)
    import gc

    gc.collect()
    put("realign", r, read_out(o) if os.path.exists(o) else "")
    pf = os.path.join(d, f"{tag}_paths.txt")
    with open(pf, "w") as f:
        for l in recs[:6]:
            f.write(l.split("\t")[5] + "\n")
        f.write(">r1<r1\n")
    o = os.path.join(d, f"{tag}_fp")
    r = run_cli(["find_path", gfa, pf, "-o", o, "-f"])
    put("find_path", r, read_out(o) if os.path.exists(o) else "")
    od = os.path.join(d, f"{tag}_og")
    r = run_cli(["order_gfa", "--chromosome_order", "chr1", "--outdir", od, "--with-sequence", raw])
    put("order_gfa", r, [read_text(p) for p in sorted(glob.glob(os.path.join(od, "*")))])
    return res


def align_line_start(recs, boundary):
    """shorten one padding so that some record starts exactly at uncompressed offset `boundary`"""
    off = 0
    for j, l in enumerate(recs):
        if off >= boundary and j > 0:
            diff = off - boundary
            prev = recs[j - 1]
            if prev.endswith("p" * (diff + 1)):
                recs[j - 1] = prev[: len(prev) - diff]
                return True
            return False
        off += len(l) + 1
    return False


def run_session(job):
    sid, seed, pad, block = job
    rnd = random.Random(seed)
    d = workdir("same_", sid)
    try:
        nodes, links, recs, reads = make_session(rnd, abs(pad))
        many = pad == -1      # a file with thousands of short records: queries with > 1000 hits, batches of output
        if many:
            pad = 0
            nodes, links, recs, reads = make_session(rnd, 0)
            while len(recs) < 2600:
                recs = recs + [l.replace("q", "d", 1) for l in recs]
                reads = reads + [("d" + n[1:], s_) for n, s_ in reads]
            seen, r2, rd2 = set(), [], []
            for l, rd in zip(recs, reads):
                nm = l.split("\t")[0]
                k = 0
                while nm in seen:
                    k += 1
                    nm = l.split("\t")[0] + f"x{k}"
                seen.add(nm)
                r2.append(nm + l[len(l.split("\t")[0]):])
                rd2.append((nm, rd[1]))
            recs, reads = r2, rd2
            # a field of random text on every record: the BGZF copy then exceeds 64 KiB COMPRESSED (virtual offsets beyond 2^32)
            recs = [l + "\tzr:Z:" + "".join(rnd.choice("ABCDEFGHIJKLMNOPQRSTUVWXYZabcdefghijklmnopqrstuvwxyz0123456789") for _ in range(70)) for l in recs]
        if pad < 0:       # chunk-boundary session: a record starts exactly at 65536 (and the file is longer than that)
            while sum(len(l) + 1 for l in recs) < 70000:
                recs = recs + [l.replace("q", "d", 1) for l in recs]
                reads = reads + [("d" + n[1:], s_) for n, s_ in reads]
            seen, r2, rd2 = set(), [], []
            for l, rd in zip(recs, reads):       # unique read names
                nm = l.split("\t")[0]
                k = 0
                while nm in seen:
                    k += 1
                    nm = l.split("\t")[0] + f"x{k}"
                seen.add(nm)
                r2.append(nm + l[len(l.split("\t")[0]):])
                rd2.append((nm, rd[1]))
            recs, reads = r2, rd2
            align_line_start(recs, 65536)
        cfgs = [("plain", "gfa"), ("bgzf", "gfa"), ("plain", "gz"), ("bgzf", "gz")]
        import readers

        readers.SALT = sid      # the four configurations are run with the same form of every command line
        zsuf = [".gz", ".gz", ".bgz", ".GZ"][seed % 4]
        BOM[0] = seed % 5 == 2
        try:
            per = [battery(d, f"c{k}", nodes, links, recs, reads, gs, fs, block, "" if seed % 3 == 1 else "\n", zsuf) for k, (gs, fs) in enumerate(cfgs)]
        finally:
            BOM[0] = False
        # late queries: after every configuration has been indexed and used, ask the first two again WITHOUT re-indexing
        for k, (gs, fs) in enumerate(cfgs):
            gaf = os.path.join(d, "in.gaf" + (zsuf if gs == "bgzf" else ""))
            for qi, args in enumerate([["-n", "r1"], ["-r", "chr1:5-40"]]):
                o = os.path.join(d, f"late{k}_{qi}")
                r = run_cli(["view", gaf, "-o", o] + args)
                per[k][f"lateview{qi}"] = {"status": r["status"] if r["status"] in ("ok", "exit") else r["status"] + ":" + r["exc"][:50],
                                           "value": (read_out(o) if os.path.exists(o) else "") + f"|{r['status']}", "resolved": True}
                if per[k][f"lateview{qi}"]["status"] == "exit":
                    per[k][f"lateview{qi}"]["status"] = "ok"
        # the SAME path used again after its compression changed (a work directory reused by a pipeline: plain, then --bgzip onto the
        # same name - gaftools recognises compression by content): plain -> BGZF -> plain -> BGZF, stat and a node query each time
        plain_bytes = open(os.path.join(d, "in.gaf"), "rb").read()
        bgzf_bytes = open(os.path.join(d, "in.gaf" + zsuf), "rb").read()
        re_gaf = os.path.join(d, "reused.gaf")
        re_gfa = os.path.join(d, "c0.gfa")
        for k, (gs, fs) in enumerate(cfgs):
            with open(re_gaf, "wb") as fh:
                fh.write(bgzf_bytes if k % 2 else plain_bytes)
            o = os.path.join(d, f"reuse{k}_stat")
            r = run_cli(["stat", re_gaf, "-o", o])
            per[k]["reuse_stat"] = {"status": r["status"] if r["status"] == "ok" else r["status"] + ":" + r["exc"][:50], "value": read_out(o) if os.path.exists(o) else "", "resolved": True}
            o = os.path.join(d, f"reuse{k}_view")
            r1 = run_cli(["index", re_gaf, re_gfa])
            r = run_cli(["view", re_gaf, "-o", o, "-n", "r1"]) if r1["status"] == "ok" else r1
            stt = "ok" if r["status"] in ("ok", "exit") else r["status"] + ":" + r["exc"][:50]
            per[k]["reuse_view"] = {"status": stt, "value": (read_out(o) if os.path.exists(o) else "") + f"|{r['status']}", "resolved": True}
        cases = []
        nblocks = len(bgzf_blocks(os.path.join(d, "in.gaf" + zsuf)))
        for cmd in per[0]:
            cases.append({"id": f"{sid}.{cmd}", "cmd": cmd, "nblocks": nblocks,
                          "results": [dict(per[k].get(cmd, {"status": "missing", "value": "", "resolved": False}), cfg=f"{gs}_{fs}") for k, (gs, fs) in enumerate(cfgs)]})
        return cases
    finally:
        import readers

        readers.SALT = None
        shutil.rmtree(d, ignore_errors=True)


def run(ctx):
    ctx.rule = (
        "seeded sessions (reference chain with bubbles, BO/NO-tagged; 8-25 walk alignments in both orientations with reads) are pushed "
        "through index, view (node, region, --format both ways), sort (plain and --bgzip output, .gsi), stat, realign, find_path and "
        "order_gfa under {plain, multi-block BGZF} x {gfa, gfa.gz}; offsets stored in .gvi/.gsi are resolved by seeking the real file "
        "with the harness reader and GAF.read_line; TLC (Check_Same) decides that the four results agree; the offset spaces themselves are "
        "model-checked in Storage.tla; non-trivial = every case (BGZF file has >= 2 blocks)"
    )
    r = ctx.tlc("Storage", "Storage_t.cfg" if ctx.thorough else "Storage_q.cfg", coverage=False)
    if not r.ok:
        ctx.design_violation("Storage", "Storage_q.cfg", r)
    n = 60 if ctx.thorough else 14
    jobs = [(f"s{k}", ctx.seed * 31337 + k, (6000 if ctx.thorough and k % 3 == 0 else 0), (60000 if ctx.thorough and k % 3 == 0 else 400)) for k in range(n)]
    # records starting exactly on a 64 KiB boundary of the uncompressed stream, in bgzip-sized (65280) and small blocks
    jobs += [(f"a{k}", ctx.seed * 977 + k, -3000, blk) for k, blk in enumerate([65280, 65280, 400] if not ctx.thorough else [65280] * 6 + [400] * 2)]
    jobs += [(f"m{k}", ctx.seed * 613 + k, -1, blk) for k, blk in enumerate([65280] if not ctx.thorough else [65280, 4000, 65280])]
    res = pool_map(run_session, jobs, chunk=1)
    cases = [c for cs in res for c in cs]
    ctx.evaluations += 4 * len(cases)
    for c in cases:
        if c["nblocks"] >= 2:
            ctx.nontrivial.add(c["id"])
    verdicts = ctx.validate("Check_Same", cases)
    for c in cases:
        if verdicts[c["id"]] != "ok":
            small = dict(c)
            small["results"] = [{k: (str(v)[:600] if k == "value" else v) for k, v in r.items()} for r in c["results"]]
            ctx.violation(verdicts[c["id"]], small)
    c = cases[0]
    ctx.sample({"cmd": c["cmd"], "nblocks": c["nblocks"], "value_plain": str(c["results"][0]["value"])[:400]})
    ctx.notes["max_blocks"] = max(c["nblocks"] for c in cases)
    ctx.assumptions += ["each command's result is checked against its own oracle by the property-specific checks; here only agreement across storage configurations is decided",
                        "output file names derived from the input name are not compared (DESIGN 7.3)"]
