"""X04 - growth of the specification: HISTORIES of commands on one GAF file (spec/Pipeline.tla).
TLC enumerates every command history (sort / phase with two TSVs / index + view --node / view) up to a depth over the
initial files of spec/data/pipeline.json and checks the algebra of the commands; every history is then run on real
files, each command on the output of the one before, and TLC (Check_Pipeline) compares what every step left with the
model's file.

Not one of the 20 listed properties; deviations are EXT-DEVIATION lines. Named deviations of the code from the idealised
design (E1: a second sort appends bo/sn/iv again, E2: a second phase keeps the old ps/ht) are expected counterexamples."""
import json
import os
import shutil
import zlib

from engine import SPEC, gen_states, pool_map
from readers import join_lines, lines_of, read_text, run_cli, write_text, workdir
from props.sort_common import POOL, gaf_line, gfa_text

DATA = json.load(open(os.path.join(SPEC, "data", "pipeline.json")))


def bag(fields):
    b = {}
    for f in fields:
        b[f] = b.get(f, 0) + 1
    return b


def run_history(job):
    hid, f, hist = job
    import readers

    readers.CASE = hid
    d = workdir("pipe_", hid)
    try:
        recs = [POOL[p - 1] for p in DATA["files"][f - 1]]
        lines = [gaf_line(k + 1, r) for k, r in enumerate(recs)]
        # read names must identify the record: the pool draws may repeat a record, the name carries the position
        names = [l.split("\t")[0] for l in lines]
        assert len(set(names)) == len(names)
        gfa = os.path.join(d, "g.gfa")
        write_text(gfa, gfa_text("a"))
        h = zlib.crc32(hid.encode())
        cur = os.path.join(d, "in.gaf" + (".gz" if h % 3 == 0 else ""))
        write_text(cur, join_lines(lines, hid), "bgzf" if h % 3 == 0 else "plain", block=300)
        tsvs = []
        for ti, rows in enumerate(DATA["tsvs"]):
            p = os.path.join(d, f"t{ti + 1}.tsv")
            with open(p, "w") as fh:
                for pos, ps, ht in rows:
                    if pos > len(names):
                        continue
                    if ht == "ht:Z:none":
                        fh.write(f"{names[pos - 1]}\tnone\tnone\tchrA\n")
                    else:
                        contig, _, pset = ps[5:].rpartition("-")
                        fh.write(f"{names[pos - 1]}\t{ht[5:]}\t{pset}\t{contig}\n")
            tsvs.append(p)
        def stat_of(path):
            # the report of `gaftools stat --cigar` on a file, as a digest ("" if stat fails)
            import hashlib

            rs = run_cli(["stat", path, "--cigar"], timeout=60)
            return hashlib.sha1(rs["stdout"].encode()).hexdigest()[:10] if rs["status"] == "ok" and rs["stdout"] else "stat_failed"

        stat0 = stat_of(cur)
        first12 = {l.split("\t")[0]: l.split("\t")[:12] for l in lines}
        where = {n: k + 1 for k, n in enumerate(names)}
        steps = []
        for k, c in enumerate(hist):
            out = os.path.join(d, f"o{k + 1}.gaf")
            status = "ok"
            if c["t"] == "sort":
                bg = (h >> (k + 2)) % 2 == 1
                if bg:
                    out += ".gz"
                r = run_cli(["sort", cur, gfa, "--outgaf", out] + (["--bgzip"] if bg else []), timeout=60)
            elif c["t"] == "phase":
                r = run_cli(["phase", cur, tsvs[c["k"] - 1], "-o", out], timeout=60)
            elif c["t"] in ("filter", "nofilter"):
                r = run_cli(["index", cur, gfa], timeout=60)
                if r["status"] == "ok":
                    r = run_cli(["view", cur, "-n", c["n"], "-o", out], timeout=60)
                else:
                    r = dict(r, status="index_" + r["status"])
            else:
                r = run_cli(["view", cur, "-o", out], timeout=60)
            kind = r["status"]
            if r["status"] != "ok":
                status = (r["status"] + ":" + r["exc"].split(":")[0])[:40]
            obs = []
            if status == "ok":
                if not os.path.exists(out):
                    status = "no_output_file"
                else:
                    for ol in lines_of(read_text(out)):
                        fl = ol.split("\t")
                        pos = where.get(fl[0], 0)
                        obs.append({"pos": pos, "tags": bag(fl[12:]) or {"_none_": 1}, "cols_ok": pos > 0 and fl[:12] == first12[fl[0]]})
            if status == "no_output_file":
                kind = "no_output_file"
            steps.append({"status": status, "kind": kind, "recs": obs, "stat": stat_of(out) if status == "ok" else ""})
            if status != "ok":
                break
            cur = out
        # a failed step ends the run; the remaining steps are reported as not run
        while len(steps) < len(hist):
            steps.append({"status": "not_run", "kind": "not_run", "recs": [], "stat": ""})
        return {"id": hid, "file": f, "hist": hist, "init": [l.split("\t")[12:] for l in lines], "stat0": stat0, "steps": steps}
    finally:
        readers.CASE = None
        shutil.rmtree(d, ignore_errors=True)


def run(ctx):
    ctx.rule = (
        "design: TLC explores every command history (sort, phase x2 TSVs, index + view --node x5 nodes, view) up to depth 3 "
        "(thorough: 4) over four initial files and checks the algebra of the commands - sort idempotent on the order, sort / phase / "
        "selections commute, nothing lost or invented - in the idealised design (second sort replaces bo/sn/iv) and in the model of "
        "the code (appends them again; E1 and E2 are expected counterexamples); binding: every history is run on real files, each command "
        "on the output of the one before (plain / BGZF inputs, sort --bgzip outputs, LF / CRLF / no final newline, stdout form, stale "
        "outputs, relative paths), and TLC (Check_Pipeline) compares every step's file with the model's; non-trivial = history of >= 2 commands"
    )
    # the idealised design satisfies every law
    r = ctx.tlc("Pipeline", "Pipeline_t.cfg" if ctx.thorough else "Pipeline_q.cfg", coverage=False, timeout=1800)
    if not r.ok:
        ctx.design_violation("Pipeline", "Pipeline_q.cfg", r)
    # named deviations of the code: expected counterexamples
    named = []
    for cfg, inv, what in (("Pipeline_e1.cfg", "TagsUniqueSort", "E1: sorting a file that already carries bo/sn/iv appends the three fields again"),
                           ("Pipeline_e2.cfg", "TagsUniquePhase", "E2: phasing a file that already carries ps/ht keeps the old pair next to the new one")):
        r = ctx.tlc("Pipeline", cfg, coverage=False, timeout=600)
        named.append({"deviation": what, "invariant": inv, "counterexample_found": (not r.ok) and r.violated == inv})
        if r.ok or r.violated != inv:
            ctx.violation("named_deviation_not_reproduced_in_model:" + inv, {"cfg": cfg})
    ctx.notes["named_deviations"] = named
    # the model of the code: its reachable histories are the test cases
    states, r = gen_states(ctx, "Pipeline", "Pipeline_codet.cfg" if ctx.thorough else "Pipeline_code.cfg", coverage=False, timeout=1800)
    jobs = []
    for st in states:
        if not st["hist"]:
            continue
        hist = [dict(c) for c in st["hist"]]
        hid = f"f{st['file']}-" + ".".join(("x" if c["t"] == "nofilter" else c["t"][0]) + str(c.get("k", c.get("n", ""))) for c in hist)
        jobs.append((hid, st["file"], hist))
    cases = pool_map(run_history, jobs, chunk=8)
    ctx.evaluations += sum(len(c["hist"]) for c in cases)
    for c in cases:
        if len(c["hist"]) >= 2:
            ctx.nontrivial.add(c["id"])
    verdicts = ctx.validate("Check_Pipeline", cases, cfg="Check_Pipeline.cfg")
    for c in cases:
        v = verdicts[c["id"]]
        if v != "ok":
            ctx.violation(v, {"id": c["id"], "file": c["file"], "hist": c["hist"], "steps": [{"status": s["status"], "order": [r["pos"] for r in s["recs"]]} for s in c["steps"]]})
    mid = cases[len(cases) // 2]
    ctx.sample({"file": DATA["files"][mid["file"] - 1], "hist": mid["hist"], "orders": [[r["pos"] for r in s["recs"]] for s in mid["steps"]]})
    ctx.exhaustive = True
    ctx.assumptions += ["the order of optional fields within a record is not part of the contract (compared as a bag)"]
