"""C14 - path sequences are spelled correctly and only for real walks."""
import itertools
import os
import tempfile

from engine import gen_states, pool_map
from readers import read_out, run_cli, write_text, workdir

SEQS = {1: "AWCSG", 2: "C", 3: "GNtSW", 4: "TSGWA"}      # a one-base node (SNP allele), an ambiguous and a soft-masked base, the two
                                                      # IUPAC codes that are their own complement (S = C/G, W = A/T)


NAMES = {1: "n1", 2: "HG002#1#JAHKSE01.1", 3: "utg3-l:7", 4: "s10.1_b"}      # GFA segment names are any printable non-blank text


def name(n):
    return NAMES.get(n, f"n{n}")


def canon_links(state):
    out = []
    for l in state["links"]:
        ends = [list(e) for e in l["ends"]]
        if len(ends) == 1:
            ends = ends * 2
        out.append([ends[0][0], ends[0][1], ends[1][0], ends[1][1], l["ov"]])
    return sorted(out)


def l_line(l, variant):
    """declare the link from its first end (variant 0) or from its second end (variant 1)"""
    a, sa, b, sb, ov = l
    if variant == 1:
        a, sa, b, sb = b, sb, a, sa
    # side sa of a is the side the link leaves a through: '+' leaves through end(1), '-' through start(0)
    ao = "+" if sa == 1 else "-"
    bo = "+" if sb == 0 else "-"
    return f"L\t{name(a)}\t{ao}\t{name(b)}\t{bo}\t{ov}M"


def gfa_text(nodes, links, variant, with_header=True, filler=0):
    lines = ["H\tVN:Z:1.0"] if with_header else []
    # filler: that many unrelated one-base segments in front, so that the graph proper stands around line `filler` of the file
    if filler < 0:      # |filler| MiB of one-line filler segments instead (a graph file of whole-genome size)
        lines += [f"S\tbigfill{i}\t" + "A" * (1 << 23) for i in range((-filler) // 8)]
    lines += [f"S\tfill{i}\tA" for i in range(max(filler, 0))]
    body = [f"S\t{name(n)}\t{SEQS[n]}\tLN:i:{len(SEQS[n])}" for n in nodes]
    body += [l_line(l, (variant + k) % 2 if variant >= 2 else variant) for k, l in enumerate(links)]
    if variant % 2 == 1:
        body.reverse()  # L lines before S lines, reversed order
    return "\n".join(lines + body) + "\n"


def pstr(p):
    return "".join(o + name(n) for o, n in p)


def run_case(job):
    cid, nodes, links, variant, k, gz = job[:6]
    filler = job[6] if len(job) > 6 else 0
    from gaftools.gfa import GFA

    d = workdir("c14_", cid)
    try:
        gpath = os.path.join(d, "g.gfa" + (".gz" if gz else ""))
        write_text(gpath, gfa_text(nodes, links, variant, filler=filler), "gz" if gz else "plain")
        steps = [(o, n) for o in "><" for n in nodes]
        paths = [list(p) for kk in range(1, k + 1) for p in itertools.product(steps, repeat=kk)]
        paths = paths + paths[::7][:5]        # a paths file may list a path more than once: one record per LINE
        g = GFA(gpath)
        res = []
        for p in paths:
            rev = [(">" if o == "<" else "<", n) for o, n in reversed(p)]
            try:
                lib = g.extract_path(pstr(p))
                librev = g.extract_path(pstr(rev))
            except Exception as e:  # noqa
                lib, librev = f"EXC:{type(e).__name__}", ""
            res.append({"p": [[o, n] for o, n in p], "lib": lib, "librev": librev})
        pfile = os.path.join(d, "paths.txt")
        with open(pfile, "w") as f:
            f.write("".join(pstr(p) + "\n" for p in paths))
        o1, o2 = os.path.join(d, "o1"), os.path.join(d, "o2")
        r1 = run_cli(["find_path", gpath, pfile, "-o", o1])
        r2 = run_cli(["find_path", gpath, pfile, "-o", o2, "-f"])
        status = "ok" if r1["status"] == "ok" and r2["status"] == "ok" else f"{r1['status']}/{r2['status']}:{r1['exc']}{r2['exc']}"
        plain = read_out(o1).split("\n")[:-1] if os.path.exists(o1) else []
        fasta = read_out(o2).split("\n")[:-1] if os.path.exists(o2) else []
        # a paths file of more than 1 MiB (the same paths over and over): one output line per input line, whatever the size
        big_in = big_out = 0
        if str(cid).startswith("big65536+0") or str(cid) == "g2v0":
            reps = (1200000 // max(1, sum(len(pstr(p)) + 1 for p in paths))) + 1
            pbig = os.path.join(d, "paths_big.txt")
            with open(pbig, "w") as f:
                for _ in range(reps):
                    f.write("".join(pstr(p) + "\n" for p in paths))
            big_in = reps * len(paths)
            ob = os.path.join(d, "ob")
            rb = run_cli(["find_path", gpath, pbig, "-o", ob], timeout=300)
            big_out = len(read_out(ob).split("\n")) - 1 if os.path.exists(ob) and rb["status"] == "ok" else -1
        single = []
        for p in paths[:: max(1, len(paths) // 6)]:
            o3 = os.path.join(d, "o3")
            r3 = run_cli(["find_path", gpath, pstr(p), "-o", o3])
            out = read_out(o3) if os.path.exists(o3) else "MISSING"
            single.append({"p": [[o, n] for o, n in p], "out": out[:-1] if out.endswith("\n") and r3["status"] == "ok" else "BAD:" + out})
        return {
            "id": cid,
            "nodes": nodes,
            "links": links,
            "k": k,
            "seq": [SEQS[n] for n in range(1, max(nodes) + 1)],
            "name": [name(n) for n in range(1, max(nodes) + 1)],
            "res": res,
            "cli_status": status,
            "cli_plain": plain,
            "cli_fasta": fasta,
            "single": single,
            "variant": variant,
            "gz": gz,
            "big_in": big_in,
            "big_out": big_out,
        }
    finally:
        import shutil

        shutil.rmtree(d, ignore_errors=True)


def run(ctx):
    cfg = "GfaStore_c14t.cfg" if ctx.thorough else "GfaStore_c14q.cfg"
    k = 3
    states, r = gen_states(ctx, "MC_GfaStore", cfg)
    jobs = []
    seen = set()
    for st in states:
        nodes = sorted(st["nodes"])
        if not nodes or nodes != list(range(1, len(nodes) + 1)):
            continue  # node sets {2} etc. are renamings of {1}
        links = canon_links(st)
        key = (tuple(nodes), tuple(map(tuple, links)))
        if key in seen:
            continue
        seen.add(key)
        variants = [0, 1, 2, 3] if links else [0]
        for v in variants:
            jobs.append((f"g{len(seen)}v{v}", nodes, links, v, k, v == 3))
    # scale: the same two-node graphs in a file of ~65,536 / ~100,000 lines (the records of the graph proper on and around those
    # line numbers): readers that count lines, work in chunks or report progress every N lines have their seams there
    twolink = [j for j in jobs if len(j[1]) == 2 and len(j[2]) == 2][:1] or jobs[-1:]
    for base in (65536, 100000):
        for off in range(-5, 2):
            j = twolink[0]
            jobs.append((f"big{base}{off:+d}", j[1], j[2], (off + 5) % 4, 2, (off + 5) % 4 == 3, base + off))
    # ... and once in a file of 72 MiB (nine 8 MiB filler segments in front)
    jobs.append(("big72MiB", twolink[0][1], twolink[0][2], 0, 2, False, -72))
    ctx.rule = (
        "one case per reachable GfaStore state (graph) x link-declaration variant (declared from either end, "
        "L before S, gz); each case runs ALL step lists of length <= 3 through GFA.extract_path (walk and "
        "reversed walk) and gaftools find_path (file, -f, single path); non-trivial = graph with >= 1 link"
    )
    cases = pool_map(run_case, jobs)
    ctx.evaluations = sum(len(c["res"]) for c in cases)
    for c in cases:
        if c["links"]:
            ctx.nontrivial.add((tuple(c["nodes"]), tuple(map(tuple, c["links"]))))
    verdicts = ctx.validate("Check_C14", cases)
    ctx.exhaustive = True
    for c in cases:
        v = verdicts[c["id"]]
        if v != "ok":
            bad = dict(c)
            ctx.violation(v, bad)
    if cases:
        c = cases[len(cases) // 2]
        ctx.sample({"nodes": c["nodes"], "links": c["links"], "variant": c["variant"], "results": c["res"][:6], "fasta": c["cli_fasta"][:4]})
    ctx.assumptions += [
        "node sequences over ACGTN upper case (lower case is outside the generator, DESIGN 7.2)",
        "steps range over nodes of the graph only (the property's quantifier)",
    ]
