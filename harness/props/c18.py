"""C18 - order_gfa isolates components it cannot order."""
from props.chain_common import finish, sessions


def run(ctx):
    ctx.rule = (
        "TLC generates multi-chromosome graphs in which any subset of chromosomes carries a defect (a branching tip on a middle "
        "scaffold node; three articulation points on one cycle, with and without an inner node); for every chromosome order gaftools "
        "order_gfa runs with the defective chromosomes in the request and, as reference, without them (--by-chrom and complete); TLC "
        "(Check_Chain.V18) decides that the good chromosomes are tagged as C06 demands, nothing is written for the skipped ones, and "
        "tags and files equal the reference run; non-trivial = every case (>=1 defective chromosome)"
    )
    cfgs = ["BubbleChain_d.cfg", "BubbleChain_dw.cfg"] if not ctx.thorough else ["BubbleChain_d.cfg", "BubbleChain_d3.cfg", "BubbleChain_dw.cfg"]
    # design check: the per-chromosome loop as a machine (OrderChrom / SkipChrom) satisfies C06 and C18 on every generated graph and order
    r = ctx.tlc("OrderRun", "OrderRun_q.cfg", coverage=False)
    if not r.ok:
        ctx.design_violation("OrderRun", "OrderRun_q.cfg", r)
    jobs = sessions(ctx, cfgs, "C18")
    # the documented default request (no --chromosome_order) on a graph with exactly chr1..chr22, chrX, chrY, chrM, one of which
    # (chr7) has a branching tip on its middle segment: it is skipped, the other 24 are ordered
    default = [f"chr{i}" for i in range(1, 23)] + ["chrX", "chrY", "chrM"]
    nodes, links, chroms = [], [], []
    for k, c in enumerate(default):
        ids = [f"s{100 + 4 * ((7 * k) % 25) + j}" for j in range(4)]
        nodes += [{"id": ids[j], "sn": c, "so": 2 * j, "ln": 2, "sr": 0} for j in range(3)]
        links += [{"a": ids[0], "ao": "+", "b": ids[1], "bo": "+"}, {"a": ids[1], "ao": "+", "b": ids[2], "bo": "+"}]
        bad = c == "chr7"
        if bad:
            nodes.append({"id": ids[3], "sn": "alt" + ids[3][1:], "so": 0, "ln": 2, "sr": 1})
            links.append({"a": ids[1], "ao": "+", "b": ids[3], "bo": "+"})
        chroms.append({"name": c, "bad": bad, "elems": [{"k": "b", "ns": [ids[0]]}, {"k": "s", "ns": [ids[1]]}, {"k": "b", "ns": [ids[2]]}]})
    jobs.append(("default25bad", {"nodes": nodes, "links": links, "chroms": chroms}, "C18", ctx.seed, {"default_order": True}))
    finish(ctx, jobs, "C18")
    ctx.exhaustive = True
    ctx.assumptions += ["defects are built by the generator: branch, branchalt, branchref (a dead end on the reference allele of a bubble), join (a piece of another contig attached through a haplotype node), cycle3, cycle3in"]
