"""Shared driver for C01 (same locus) and C02 (lossless) - coordinate conversion through `view --format`."""
import os
import random
import shutil
import tempfile
from collections import defaultdict

from engine import REPO, gen_states, pool_map
from readers import zname, read_out, join_lines, gaf_record, read_text, run_cli, write_text, workdir, lines_of

EXTRA = ["tp:A:P", "NM:i:-3", "zd:Z:a:b c#1"]


# segment names are free text: ids that are prefixes of one another, that sort differently as text and as numbers, and
# with the punctuation real assemblers use (utig4-15, s1.alt, PanSN-like '#')
IDS = ["s1", "s10", "s1.alt", "utg4-15", "s2", "HG#1#c7", "s3", "s30", "s4_b", "s5"]
HAPCTG = "HG002#1#JAHKSE01.1"                                                    # a contig name as real rGFAs have them


def nid(k):
    return IDS[k - 1] if k <= len(IDS) else f"s9{k}"


def segs_of(ref, hap, base=10):
    segs = {}
    so = 0
    k = 0
    for l in ref:
        k += 1
        segs[nid(k)] = {"sn": "chr1", "so": so, "ln": l, "sr": 0}
        so += l
    pos = base
    for g, l in hap:
        k += 1
        pos += g
        segs[nid(k)] = {"sn": HAPCTG, "so": pos, "ln": l, "sr": 1}
        pos += l
    return segs


def gfa_text(segs, walks, rnd=None):
    lines = []
    # segment lines are deliberately NOT in offset order (a contig inserted in reverse has descending SO in real rGFAs)
    for n, s in sorted(segs.items(), key=lambda kv: (-kv[1]["so"], kv[0])):
        seq = "".join("ACGT"[(7 * i + len(n) + s["so"]) % 4] for i in range(s["ln"]))
        lines.append(f"S\t{n}\t{seq}\tLN:i:{s['ln']}\tSN:Z:{s['sn']}\tSO:i:{s['so']}\tSR:i:{s['sr']}")
    links = set()
    for w in walks:
        for (o1, a), (o2, b) in zip(w, w[1:]):
            links.add((a, "+" if o1 == ">" else "-", b, "+" if o2 == ">" else "-"))
    for a, ao, b, bo in sorted(links):
        lines.append(f"L\t{a}\t{ao}\t{b}\t{bo}\t0M")
    return "\n".join(lines) + "\n"


def cigar_for(L):
    a = (L + 1) // 2
    if L % 3 == 2 and L - a:      # a CIGAR is a list of any of M I D N S H P = X: clips, a skipped region, padding
        return f"1S{a}=3N1P{L - a}X2H", a
    return (f"{a}=" if a else "") + (f"{L - a}X" if L - a else ""), a


def records_for(segs, walk, qprefix, spans=None):
    plen = sum(segs[n]["ln"] for _, n in walk)
    path = "".join(o + n for o, n in walk)
    out = []
    if spans is None:
        spans = [(ps, pe) for ps in range(plen) for pe in range(ps + 1, plen + 1)]
    for ps, pe in spans:
        if True:
            L = pe - ps
            cg, a = cigar_for(L)
            name = f"{qprefix}_{ps}_{pe}"
            cgf = f"cg:Z:{cg}\t" if (ps + 2 * pe) % 5 else ""       # the CIGAR is an optional field: one record in five has none
            if cgf and L % 2 == 1:      # ... and where it stands is free: here it is the LAST field of the line
                out.append(f"{name}\t{L + 2}\t1\t{L + 1}\t+\t{path}\t{plen}\t{ps}\t{pe}\t{a}\t{L}\t{(ps * 7 + pe) % 61}\t{EXTRA[0]}\t{EXTRA[1]}\t{EXTRA[2]}\tcg:Z:{cg}")
                continue
            out.append(f"{name}\t{L + 2}\t1\t{L + 1}\t+\t{path}\t{plen}\t{ps}\t{pe}\t{a}\t{L}\t{(ps * 7 + pe) % 61}\t{EXTRA[0]}\t{cgf}{EXTRA[1]}\t{EXTRA[2]}")
    return out


def proj(line):
    r = gaf_record(line)
    c = r["cols"]
    return {
        "strand": r["strand"], "path": r["path"], "plen": r["plen"], "ps": r["ps"], "pe": r["pe"], "cigar": r["cigar"],
        "keep": [c[0], c[1], c[2], c[3], c[9], c[10], c[11]],
        "opt": [":".join(t) for t in r["opt"] if not (t[0] == "cg" and t[1] == "Z")],
        # where the CIGAR stands among the optional fields (0 = none): an exact round trip keeps it there
        "cgpos": ([k + 1 for k, t in enumerate(r["opt"]) if t[0] == "cg" and t[1] == "Z"] or [0])[0],
    }


def run_graph(job):
    gid, segs, walks, mode, gaf_storage, gfa_gz = job
    import readers as _rd

    _rd.CASE = str(gid)
    d = workdir("coords_", gid)
    try:
        gfa = os.path.join(d, "g.gfa" + (".gz" if gfa_gz else ""))
        write_text(gfa, gfa_text(segs, [it[1] for it in walks]), "gz" if gfa_gz else "plain")
        lines = []
        spans = []
        for item in walks:
            wid, w = item[0], item[1]
            recs = records_for(segs, w, wid, item[2] if len(item) > 2 else None)
            spans.append((wid, w, len(lines), len(lines) + len(recs)))
            lines += recs
        u = os.path.join(d, zname("u.gaf", gid) if gaf_storage == "bgzf" else "u.gaf")
        write_text(u, join_lines(lines, gid), gaf_storage, block=700)
        s, u2, s2 = (os.path.join(d, x) for x in ("s.gaf", "u2.gaf", "s2.gaf"))
        status = "ok"
        for src, dst, fmt in ((u, s, "stable"), (s, u2, "unstable"), (u2, s2, "stable")):
            r = run_cli(["view", src, "-g", gfa, "-f", fmt, "-o", dst], timeout=120)
            if r["status"] != "ok":
                status = f"view_{fmt}_{r['status']}"
                break
        cases = []
        if status == "ok":
            S, U2, S2 = (lines_of(read_out(x)) for x in (s, u2, s2))
            if not (len(S) == len(U2) == len(S2) == len(lines)):
                status = "record_count"
        # a selection with --format: the selected records, converted, one each, in INPUT order - whatever the order of the -n options
        sel = []
        if status == "ok" and 0 < len(lines) <= 600:
            r = run_cli(["index", u, gfa], timeout=120)
            touched = sorted({n for _, w_, _, _ in spans for _, n in w_})
            line_nodes = []
            for wid, w_, a, b in spans:
                line_nodes += [{n for _, n in w_}] * (b - a)
            pairs = [(touched[-1], touched[0])] + ([(touched[len(touched) // 2], touched[0])] if len(touched) > 2 else [])
            for qa, qb in pairs if r["status"] == "ok" else []:
                o = os.path.join(d, "sel.gaf")
                if os.path.exists(o):
                    os.remove(o)
                r2 = run_cli(["view", u, "-n", qa, "-n", qb, "-g", gfa, "-f", "stable", "-o", o], timeout=120)
                got = [l.split("\t")[0] for l in lines_of(read_out(o))] if os.path.exists(o) else []
                exp = [lines[k].split("\t")[0] for k in range(len(lines)) if line_nodes[k] & {qa, qb}]
                full = (lines_of(read_out(o)) == [S[k] for k in range(len(lines)) if line_nodes[k] & {qa, qb}]) if os.path.exists(o) else False
                sel.append({"ns": [qa, qb], "status": r2["status"], "got": got, "exp": exp, "same_as_whole_file_conversion": full})
            # ... and a REGION spanning two reference segments, the records read from standard output (no -o): nothing but records
            ref = sorted((x for x in segs if segs[x]["sn"] == "chr1" and segs[x]["sr"] == 0), key=lambda x: segs[x]["so"])
            if r["status"] == "ok" and len(ref) >= 2:
                a, b = segs[ref[0]]["so"], segs[ref[1]]["so"] + segs[ref[1]]["ln"] - 1
                under = {x for x in segs if segs[x]["sn"] == "chr1" and segs[x]["so"] <= b and a < segs[x]["so"] + segs[x]["ln"]}
                exp_k = [k for k in range(len(lines)) if line_nodes[k] & under]
                if exp_k:
                    r3 = run_cli(["view", u, "-r", f"chr1:{a}-{b}", "-g", gfa, "-f", "stable"], timeout=120)
                    outl = lines_of(r3["stdout"])
                    sel.append({"ns": ["region", f"chr1:{a}-{b}"], "status": r3["status"], "got": [l.split("\t")[0] for l in outl], "exp": [lines[k].split("\t")[0] for k in exp_k],
                                "same_as_whole_file_conversion": outl == [S[k] for k in exp_k]})
            # ... and TWO regions on one contig (its first and its last reference segment)
            if r["status"] == "ok" and len(ref) >= 3:
                ra = (segs[ref[0]]["so"], segs[ref[0]]["so"] + segs[ref[0]]["ln"] - 1)
                rb = (segs[ref[-1]]["so"], segs[ref[-1]]["so"] + segs[ref[-1]]["ln"] - 1)
                under2 = {x for x in segs if segs[x]["sn"] == "chr1" and any(segs[x]["so"] <= b_ and a_ < segs[x]["so"] + segs[x]["ln"] for a_, b_ in (ra, rb))}
                exp_k = [k for k in range(len(lines)) if line_nodes[k] & under2]
                if exp_k:
                    o = os.path.join(d, "sel2.gaf")
                    r4 = run_cli(["view", u, "-r", f"chr1:{ra[0]}-{ra[1]}", "-r", f"chr1:{rb[0]}-{rb[1]}", "-g", gfa, "-f", "stable", "-o", o], timeout=120)
                    outl = lines_of(read_out(o)) if os.path.exists(o) else []
                    sel.append({"ns": ["regions", f"chr1:{ra[0]}-{ra[1]}", f"chr1:{rb[0]}-{rb[1]}"], "status": r4["status"], "got": [l.split("\t")[0] for l in outl],
                                "exp": [lines[k].split("\t")[0] for k in exp_k], "same_as_whole_file_conversion": outl == [S[k] for k in exp_k]})
            if r["status"] != "ok":
                sel.append({"ns": [], "status": "index_" + r["status"], "got": [], "exp": ["x"], "same_as_whole_file_conversion": False})
        for wid, w, a, b in spans:
            c = {"id": f"{gid}.{wid}", "mode": mode, "status": status, "segs": segs, "walk": "".join(o + n for o, n in w), "recs": [], "sel": []}
            if status == "ok":
                for k in range(a, b):
                    c["recs"].append({"u": proj(lines[k]), "s": proj(S[k]), "u2": proj(U2[k]), "s2": proj(S2[k])})
            cases.append(c)
        if not spans:      # an empty GAF: nothing to convert, and that is not an error
            cases.append({"id": f"{gid}.empty", "mode": mode, "status": status, "segs": segs, "walk": "", "recs": [], "sel": []})
        if cases:
            cases[0]["sel"] = sel
        return cases
    except Exception as e:  # noqa
        return [{"id": f"{gid}.{it[0]}", "mode": mode, "status": f"harness_{type(e).__name__}", "segs": segs, "walk": "", "recs": [], "sel": []} for it in (walks or [("empty",)])]
    finally:
        shutil.rmtree(d, ignore_errors=True)


def random_graph_jobs(rnd, n, mode, maxref=6, maxhap=4, maxlen=5, maxwalk=6, nwalks=25):
    jobs = []
    for gi in range(n):
        ref = [rnd.randint(1, maxlen) for _ in range(rnd.randint(1, maxref))]
        hap = [(0 if i == 0 else rnd.choice([0, 0, 4]), rnd.randint(1, maxlen)) for i in range(rnd.randint(0, maxhap))]
        segs = segs_of(ref, hap)
        if gi % 3 == 1:      # a second rank-0 contig, tiled from 0 as well
            so = 0
            for j in range(rnd.randint(1, 3)):
                ln = rnd.randint(1, maxlen)
                segs[f"t{j + 1}"] = {"sn": "chr2", "so": so, "ln": ln, "sr": 0}
                so += ln
        names = list(segs)
        walks = []
        for wi in range(nwalks):
            w = [(rnd.choice("><"), rnd.choice(names)) for _ in range(rnd.randint(1, maxwalk))]
            if rnd.random() < 0.5:  # runs along the contig in either direction (merging candidates)
                k = rnd.randrange(len(names))
                o = rnd.choice("><")
                run = names[k : k + rnd.randint(1, 4)]
                w = [(o, x) for x in (run if o == ">" else run[::-1])] + w[: rnd.randint(0, 2)]
            walks.append((f"w{wi}", w))
        # detours that start and end on the reference contig: through another node of EXACTLY the skipped node's length
        # (an equal-length allele), through the skipped node inverted, and the same walks reversed
        chain = sorted((x for x in names if segs[x]["sn"] == "chr1"), key=lambda x: segs[x]["so"])
        extra = []
        for k in range(len(chain) - 2):
            a, m, b = chain[k : k + 3]
            same = [x for x in names if x not in (a, m, b) and segs[x]["ln"] == segs[m]["ln"]]
            cands = [[(">", a), ("<", m), (">", b)]] + ([[(">", a), (">", rnd.choice(same)), (">", b)]] if same else [])
            for w in cands:
                extra.append(w)
                extra.append([("<" if o == ">" else ">", x) for o, x in reversed(w)])
        rnd.shuffle(extra)
        for wi, w in enumerate(extra[:6]):
            walks.append((f"d{wi}", w))
        jobs.append((f"R{gi}", segs, walks, mode, rnd.choice(["plain", "bgzf"]), rnd.random() < 0.3))
    return jobs


def fixture_jobs(rnd, mode, n):
    """the repository's own 13-node test graph (real coordinates, ids such as s464827, a contig name with '#'):
    seeded walks along its links in both directions with random offsets"""
    import re

    segs, links = {}, []
    for line in open(REPO + "/tests/data/smallgraph.gfa"):
        f = line.rstrip("\n").split("\t")
        if f[0] == "S":
            t = {x.split(":", 2)[0]: x.split(":", 2)[2] for x in f[3:]}
            segs[f[1]] = {"sn": t["SN"], "so": int(t["SO"]), "ln": int(t["LN"]), "sr": int(t["SR"])}
        elif f[0] == "L":
            links.append((f[1], f[2], f[3], f[4]))
    nxt = {}
    for a, ao, b, bo in links:
        nxt.setdefault((a, ao), []).append((b, bo))
        nxt.setdefault((b, "-" if bo == "+" else "+"), []).append((a, "-" if ao == "+" else "+"))
    jobs = []
    per = 12
    for j in range(n // per):
        walks = []
        for wi in range(per):
            cur = (rnd.choice(list(segs)), rnd.choice("+-"))
            walk = [cur]
            while len(walk) < rnd.randint(1, 4) and walk[-1] in nxt:
                walk.append(rnd.choice(nxt[walk[-1]]))
            w = [(">" if o == "+" else "<", nd) for nd, o in walk]
            plen = sum(segs[nd]["ln"] for _, nd in w)
            spans = []
            for _ in range(3):
                ps = rnd.randint(0, min(plen - 1, segs[w[0][1]]["ln"] - 1)) if rnd.random() < 0.7 else rnd.randint(0, plen - 1)
                pe = rnd.randint(max(ps + 1, plen - segs[w[-1][1]]["ln"] + 1), plen) if rnd.random() < 0.7 else rnd.randint(ps + 1, plen)
                if pe - ps > 3000:
                    pe = ps + rnd.randint(1, 3000)
                spans.append((ps, pe))
            spans += [(0, min(plen, 2500))]
            walks.append((f"w{wi}", w, spans))
        jobs.append((f"F{j}", segs, walks, mode, rnd.choice(["plain", "bgzf"]), rnd.random() < 0.3))
    return jobs


def run_mode(ctx, mode):
    rnd = random.Random(ctx.seed)
    # design check: the TLA+ model of the two conversions satisfies the C01/C02 theorems on every generator state, all offsets
    mcfg = "CoordsModel_t.cfg" if ctx.thorough else "CoordsModel_q.cfg"
    mr = ctx.tlc("CoordsModel", mcfg, coverage=False, timeout=1800)
    if not mr.ok:
        ctx.design_violation("CoordsModel", mcfg, mr)
    cfg = "Coords_t.cfg" if ctx.thorough else "Coords_q.cfg"
    states, r = gen_states(ctx, "Coords", cfg, coverage=False)
    by_graph = defaultdict(list)
    for st in states:
        if st["phase"] != "walk" or not st["walk"]:
            continue
        key = (tuple(st["ref"]), tuple(map(tuple, st["hap"])))
        by_graph[key].append([(o, nid(k)) for o, k in st["walk"]])
    jobs = []
    for gi, ((ref, hap), walks) in enumerate(sorted(by_graph.items())):
        segs = segs_of(ref, hap)
        jobs.append((f"G{gi}", segs, [(f"w{wi}", w) for wi, w in enumerate(walks)], mode, "bgzf" if gi % 3 == 2 else "plain", gi % 5 == 4))
    njobs_enum = len(jobs)
    jobs += random_graph_jobs(rnd, 60 if not ctx.thorough else 600, mode)
    jobs += fixture_jobs(rnd, mode, 96 if not ctx.thorough else 960)
    # scale: a reference contig of 2,400 short segments and walks over hundreds / all of them (recursion depth, quadratic
    # scans and the like only show there); a handful of offsets per walk
    NB = 2400 if mode == "C02" else 700      # (C01's validator compares loci base by base: quadratic in TLC)
    bigsegs, so = {}, 0
    for k in range(NB):
        ln = 1 + (k * 7) % 3
        bigsegs[f"b{k}"] = {"sn": "chr1", "so": so, "ln": ln, "sr": 0}
        so += ln
    bigsegs["balt"] = {"sn": HAPCTG, "so": 5, "ln": 4, "sr": 1}
    order = [f"b{k}" for k in range(NB)]
    bigwalks = []
    for wi, (a, b, o) in enumerate([(0, NB, ">"), (0, NB, "<"), (NB // 4, 3 * NB // 4, ">"), (NB - 300, NB - 1, "<"), (0, 3, ">")]):
        run = order[a:b]
        w = [(o, x) for x in (run if o == ">" else run[::-1])]
        plen = sum(bigsegs[x]["ln"] for _, x in w)
        bigwalks.append((f"big{wi}", w, [(0, plen), (1, plen - 1), (0, 1), (plen - 1, plen)]))
    bigwalks.append(("bigalt", [(">", "b10"), (">", "balt"), (">", "b12")], None))
    jobs.append(("BIG", bigsegs, bigwalks, mode, "plain", False))
    # an empty GAF (plain and BGZF): zero records in, zero records out, in both directions
    jobs.append(("EMPTYp", {"e1": {"sn": "chr1", "so": 0, "ln": 3, "sr": 0}, "e2": {"sn": "chr1", "so": 3, "ln": 2, "sr": 0}}, [], mode, "plain", False))
    jobs.append(("EMPTYz", {"e1": {"sn": "chr1", "so": 0, "ln": 3, "sr": 0}, "e2": {"sn": "chr1", "so": 3, "ln": 2, "sr": 0}}, [], mode, "bgzf", True))
    # process in slices so that a thorough run (hundreds of thousands of (graph, walk) cases) stays within memory
    samples = []
    step = 120
    for a in range(0, len(jobs), step):
        res = pool_map(run_graph, jobs[a : a + step], chunk=2)
        cases = [c for cs in res for c in cs]
        ctx.evaluations += sum(len(c["recs"]) for c in cases)
        for c in cases:
            if len(c["walk"]) > 3 or "<" in c["walk"]:
                ctx.nontrivial.add(hash((str(sorted(c["segs"].items())), c["walk"])))
        verdicts = ctx.validate("Check_Coords", cases, cfg="Check_Coords.cfg")
        for c in cases:
            v = verdicts[c["id"]]
            if v != "ok":
                bad = dict(c)
                bad["recs"] = bad["recs"][:40]
                ctx.violation(v, bad)
        if len(samples) < 3 and cases:
            samples.append(cases[len(cases) // 2])
        del cases, res
    ctx.exhaustive = True
    ctx.notes["enumerated_graphs"] = njobs_enum
    ctx.notes["random_graphs"] = len(jobs) - njobs_enum
    for c in samples:
        if c["recs"]:
            q = c["recs"][len(c["recs"]) // 2]
            ctx.sample({"segs": c["segs"], "walk": c["walk"], "u": q["u"], "s": q["s"], "u2": q["u2"]})
