"""X02 - growth of the specification: GFA.biccs as a state machine (spec/Biccs.tla), bound to the unmodified
implementation by line-level traces (sys.settrace snapshots of the local variables at every loop head).

Not one of the 20 listed properties (C15 judges the RESULT of biccs); deviations are EXT-DEVIATION lines."""
import inspect
import random
import sys

from engine import gen_states, pool_map
from props.c15 import apply_op, build_ops_for_state, name, unname

_LINES = {}


def _lines():
    """line numbers of the three observation points, found by their text (no line number is assumed)"""
    if _LINES:
        return _LINES
    from gaftools.gfa import GFA

    src, first = inspect.getsourcelines(GFA.biccs)
    want = {"head": "parent = stack[-1][0]", "after": "if root_children > 1:", "for": "for n in set_of_nodes:"}
    for k, line in enumerate(src):
        for key, text in want.items():
            if line.strip() == text:
                _LINES[key] = first + k
    if set(_LINES) != set(want):
        raise RuntimeError("observation points not found in GFA.biccs: " + str(_LINES))
    return _LINES


def _snap(loc):
    u = unname
    return {
        "root": u(loc["n"]),
        "stack": [[u(it[0]), u(it[1]), it[2]] for it in loc["stack"]],
        "es": [[u(a), u(b)] for a, b in loc["edge_stack"]],
        "loc": sorted([u(a), u(b), k] for (a, b), k in loc["edge_stack_loc"].items()),
        "disc": sorted([u(a), v] for a, v in loc["discovery"].items()),
        "low": sorted([u(a), v] for a, v in loc["low"].items()),
        "vis": sorted(u(a) for a in loc["visited"]),
        "rc": loc["root_children"],
        "comps": [sorted(u(a) for a in c) for c in loc["components"]],
        "art": sorted(u(a) for a in loc["artic_points"]),
    }


def trace_biccs(g):
    """-> (segments, returned) ; one segment per root"""
    from gaftools.gfa import GFA

    L = _lines()
    code = GFA.biccs.__code__
    segs = []
    cur = {"seg": None, "pending": None}

    def local(frame, event, arg):
        if event == "line":
            ln = frame.f_lineno
            if ln == L["head"]:
                if cur["seg"] is None:
                    cur["seg"] = {"root": unname(frame.f_locals["n"]), "snaps": [], "after": None, "art_final": []}
                cur["seg"]["snaps"].append(_snap(frame.f_locals))
            elif ln == L["after"]:
                cur["seg"]["after"] = _snap(frame.f_locals)
                cur["pending"], cur["seg"] = cur["seg"], None
            elif ln == L["for"] and cur["pending"] is not None:
                cur["pending"]["art_final"] = sorted(unname(a) for a in frame.f_locals["artic_points"])
                segs.append(cur["pending"])
                cur["pending"] = None
        elif event == "return" and cur["pending"] is not None:
            cur["pending"]["art_final"] = sorted(unname(a) for a in frame.f_locals["artic_points"])
            segs.append(cur["pending"])
            cur["pending"] = None
        return local

    def tracer(frame, event, arg):
        return local if frame.f_code is code else None

    old = sys.gettrace()
    sys.settrace(tracer)
    try:
        ret = g.biccs()
    finally:
        sys.settrace(old)
    return segs, ret


def run_case(job):
    cid, ops = job
    from gaftools.gfa import GFA

    g = GFA()
    c = {"id": cid, "exc": "", "nodes": [], "links": [], "segs": []}
    try:
        for o in ops:
            apply_op(g, o)
        c["nodes"] = sorted(o["n"] for o in ops if o["op"] == "AddNode")
        c["links"] = [[o["a"], o["ao"], o["b"], o["bo"], o["ov"]] for o in ops if o["op"] == "AddLink"]
        segs, ret = trace_biccs(g)
        # isolated roots never enter the loop: they leave no segment; the specification has a (one-step) run for them
        seen = {s["root"] for s in segs}
        c["segs"] = segs
        c["isolated_roots"] = sorted(n for n in c["nodes"] if n not in seen and not g.nodes[name(n)].neighbors())
    except Exception as e:  # noqa
        c["exc"] = f"{type(e).__name__}: {e}"[:200]
    return c


def run(ctx):
    rnd = random.Random(ctx.seed)
    ctx.rule = (
        "design: TLC runs the Biccs machine on EVERY multigraph with node sides within the bound from every root and checks the "
        "refinement to RGFA.Decomp and the loop invariants; binding: on every simple graph <= 5 (quick) / 6 (thorough) nodes, "
        "every bounded multigraph of GfaStore and seeded random multigraphs the unmodified GFA.biccs is traced with sys.settrace "
        "(locals at every loop head) and TLC (Check_Biccs) validates every step against Iter; non-trivial = trace with >= 1 "
        "articulation point or >= 2 roots"
    )
    ctx.tlc("MC_Biccs", "Biccs_t.cfg" if ctx.thorough else "Biccs_q.cfg", timeout=2400)
    jobs = []
    for cfg in (["GfaStore_c15gt.cfg"] if ctx.thorough else ["GfaStore_c15gq.cfg"]) + ["GfaStore_c14t.cfg" if ctx.thorough else "GfaStore_c14q.cfg"]:
        states, r = gen_states(ctx, "MC_GfaStore", cfg, coverage=False)
        for si, st in enumerate(states):
            ops = build_ops_for_state(st)
            if ops:
                jobs.append((f"{cfg[9:-4]}g{si}", ops))
    for ri in range(3000 if ctx.thorough else 400):
        n = rnd.randint(2, 9)
        ops = [{"op": "AddNode", "n": k} for k in range(1, n + 1)]
        for _ in range(rnd.randint(n - 1, 2 * n)):
            a, b = rnd.randint(1, n), rnd.randint(1, n)
            ops.append({"op": "AddLink", "a": a, "ao": rnd.choice("+-"), "b": b, "bo": rnd.choice("+-"), "ov": rnd.choice([0, 0, 5]), "tg": []})
        jobs.append((f"r{ri}", ops))
    cases = pool_map(run_case, jobs, chunk=32)
    ctx.evaluations += len(cases)
    for c in cases:
        if len(c["segs"]) >= 2 or any(s["art_final"] for s in c["segs"]):
            ctx.nontrivial.add(c["id"])
    big = max(cases, key=lambda c: sum(len(s["snaps"]) for s in c["segs"]))
    ctx.sample({"nodes": big["nodes"], "links": big["links"], "roots": [s["root"] for s in big["segs"]],
                "loop_iterations": [len(s["snaps"]) for s in big["segs"]], "first_snapshots": big["segs"][0]["snaps"][:3] if big["segs"] else []})
    verdicts = ctx.validate("Check_Biccs", cases, cfg="Check_Biccs.cfg")
    byid = {c["id"]: c for c in cases}
    for cid, v in verdicts.items():
        if v != "ok":
            c = byid[cid]
            ctx.violation(v, {"nodes": c["nodes"], "links": c["links"], "roots": [s["root"] for s in c["segs"]], "exc": c["exc"]})
