"""X05 - growth of the specification: the outcome class of every combination of options (spec/CliTable.tla).
TLC enumerates the product of the option domains of view / sort / order_gfa / index / find_path (676 requests); every
request is made against real files; TLC (Check_Cli) compares exit class, files left behind and record counts.

Not one of the 20 listed properties; deviations are EXT-DEVIATION lines. E3 (sort on stable coordinates: KeyError), E4 (find_path with an unknown first node: KeyError) and E5 (a chromosome named
twice in --chromosome_order: FileNotFoundError at the merge) are named deviations written into the table."""
import json
import os
import shutil

from engine import SPEC, gen_states, pool_map
from readers import lines_of, read_text, run_cli, write_text, workdir
from props.sort_common import GRAPH, POOL, gaf_line, gfa_text

DATA = json.load(open(os.path.join(SPEC, "data", "pipeline.json")))
FILE = DATA["files"][0]

CHAIN_GFA = "".join(
    f"S\t{n}\tACGT\tLN:i:4\tSN:Z:{sn}\tSO:i:{so}\tSR:i:{sr}\n"
    for n, sn, so, sr in [("a1", "chrA", 0, 0), ("a2", "chrA", 4, 0), ("a3", "chrA", 8, 0), ("a4", "altA", 0, 1), ("a5", "chrA", 12, 0), ("a6", "chrA", 16, 0),
                          ("b1", "chrB", 0, 0), ("b2", "chrB", 4, 0), ("b3", "chrB", 8, 0)]
) + "".join(f"L\t{x}\t+\t{y}\t+\t0M\n" for x, y in [("a1", "a2"), ("a2", "a3"), ("a2", "a4"), ("a3", "a5"), ("a4", "a5"), ("a5", "a6"), ("b1", "b2"), ("b2", "b3")])
SEQ_GFA = "S\ts1\tACGT\nS\ts2\tGG\nS\ts3\tTTA\nL\ts1\t+\ts2\t+\t0M\nL\ts2\t+\ts3\t-\t0M\n"


def traversing(recs, nodes):
    return sum(1 for r in recs if any(n in nodes for _, n in r["walk"]))


def snapshot(d):
    out = set()
    for root, _, files in os.walk(d):
        for f in files:
            out.add(os.path.relpath(os.path.join(root, f), d))
    return out


def run_request(job):
    cid, q = job
    import readers

    readers.CASE = "x05-plain"       # the request itself is the object of study: no harness-side variants
    os.environ["VERIF_PLAIN_CLI"] = "1"
    d = workdir("cli_", cid)
    try:
        cmd, r = q["cmd"], q["r"]
        recs = [POOL[p - 1] for p in FILE]
        lines = [gaf_line(k + 1, x) for k, x in enumerate(recs)]
        gfa = os.path.join(d, "g.gfa")
        write_text(gfa, gfa_text("a"))
        ugaf = os.path.join(d, "u.gaf")
        write_text(ugaf, "\n".join(lines) + "\n")
        sgaf = os.path.join(d, "s.gaf")
        n = {"all": len(recs), "node_hit": traversing(recs, {"s1"}), "node_two": traversing(recs, {"s1", "s3"}),
             "region_hit": traversing(recs, {x for x, g in GRAPH.items() if g["sn"] == "chrA" and g["so"] <= 3 and 0 < g["so"] + g["ln"]})}
        from gaftools.__main__ import main as _main  # noqa: F401

        def plain(argv):
            return run_cli(argv, timeout=60, cwd_rel=False)

        if cmd in ("view", "sort", "index") and r.get("infmt") == "s":
            st = plain(["view", ugaf, "-g", gfa, "-f", "stable", "-o", sgaf])
            if st["status"] != "ok":
                return {"id": cid, "q": q, "kind": "harness_setup_failed", "created": [], "declared_ok": False, "count": 0, "n": n}
        gaf = sgaf if r.get("infmt") == "s" else ugaf
        out = os.path.join(d, "out.txt")
        declared, argv, count_from = [], None, None
        if cmd == "view":
            if r["index"] == "default":
                plain(["index", gaf, gfa])
            elif r["index"] == "explicit":
                plain(["index", gaf, gfa, "-o", os.path.join(d, "alt.gvi")])
            argv = ["view", gaf, "-o", out]
            if r["gfa"]:
                argv += ["-g", gfa]
            if r["fmt"] != "none":
                argv += ["-f", r["fmt"]]
            if r["index"] == "explicit":
                argv += ["-i", os.path.join(d, "alt.gvi")]
            argv += {"none": [], "hit": ["-n", "s1"], "miss": ["-n", "s6"], "two": ["-n", "s1", "-n", "s3"]}[r["nodes"]]
            argv += {"none": [], "hit": ["-r", "chrA:0-3"], "miss": ["-r", "chrB:0-3"]}[r["regions"]]
            declared, count_from = [out], out
        elif cmd == "sort":
            argv = ["sort", gaf, gfa]
            if r["outgaf"]:
                out = os.path.join(d, "sorted.gaf" + (".gz" if r["bgzip"] else ""))
                argv += ["--outgaf", out]
                declared = [out, out + ".gsi"] if not r["outind"] else [out, os.path.join(d, "my.gsi")]
            if r["bgzip"]:
                argv.append("--bgzip")
            if r["outind"]:
                argv += ["--outind", os.path.join(d, "my.gsi")]
            count_from = out if r["outgaf"] else "stdout"
        elif cmd == "index":
            if r["gz"]:
                gz = gaf + ".gz"
                write_text(gz, read_text(gaf), "bgzf", block=300)
                gaf = gz
            argv = ["index", gaf, gfa]
            if r["out"] == "explicit":
                argv += ["-o", os.path.join(d, "x.gvi")]
                declared = [os.path.join(d, "x.gvi")]
            else:
                declared = [gaf + ".gvi"]
        elif cmd == "order_gfa":
            cg = os.path.join(d, "chain.gfa")
            write_text(cg, CHAIN_GFA)
            od = {"existing": os.path.join(d, "od"), "new": os.path.join(d, "newdir"), "nested": os.path.join(d, "n1", "n2", "n3")}[r["outdir"]]
            if r["outdir"] == "existing":
                os.makedirs(od)
            argv = ["order_gfa", "--outdir", od]
            order = {"all": "chrA,chrB", "one": "chrB", "unknown": "chrA,chrQ", "absent": None, "twice": "chrA,chrA"}[r["order"]]
            if order:
                argv += ["--chromosome_order", order]
            if r["bychrom"]:
                argv.append("--by-chrom")
            if r["withseq"]:
                argv.append("--with-sequence")
            argv.append(cg)
            names = {"all": ["chrA", "chrB"], "one": ["chrB"], "twice": ["chrA"]}.get(r["order"], [])
            declared = [os.path.join(od, f"chain-{c}.{e}") for c in names for e in ("gfa", "csv")] if r["bychrom"] else [os.path.join(od, f"chain-complete.{e}") for e in ("gfa", "csv")]
        elif cmd == "find_path":
            sg = os.path.join(d, "seq.gfa")
            write_text(sg, SEQ_GFA)
            pf = os.path.join(d, "paths.txt")
            if r["arg"] == "file":
                write_text(pf, ">s1>s2\n<s2\n>s1>s2<s3\n")
            elif r["arg"] == "empty_file":
                write_text(pf, "")
            arg = {"walk": ">s1>s2<s3", "file": pf, "empty_file": pf, "nonwalk": ">s1>s3", "unknown_later": ">s1>zz>s2", "unknown_first": ">zz>s1"}[r["arg"]]
            argv = ["find_path", sg, arg] + (["-f"] if r["fasta"] else [])
            if r["out"]:
                argv += ["-o", out]
                declared, count_from = [out], out
            else:
                count_from = "stdout"
        elif cmd in ("stat", "phase", "realign"):
            from props.realign_common import make_inputs, RN

            rd = os.path.join(d, "ra")
            rgaf, rgfa, rfa = make_inputs(rd, 3)
            n = dict(n, all=3)
            if r["gaf"] == "empty":
                write_text(rgaf, "")
            if cmd == "stat":
                g = rgaf
                if r["gz"] and r["gaf"] != "missing":
                    g = rgaf + ".gz"
                    write_text(g, read_text(rgaf), "bgzf", block=200)
                if r["gaf"] == "missing":
                    g = os.path.join(rd, "no_such_file.gaf")
                argv = ["stat", g] + (["--cigar"] if r["cigar"] else [])
                if r["out"]:
                    argv += ["-o", out]
                    declared = [out]
            elif cmd == "phase":
                tsv = os.path.join(rd, "h.tsv")
                if r["tsv"] == "rows":
                    write_text(tsv, f"{RN(1)}\tH1\t10\tchr1\n{RN(3)}\tnone\tnone\tchr1\n")
                elif r["tsv"] == "empty":
                    write_text(tsv, "")
                argv = ["phase", rgaf, tsv]
                if r["out"]:
                    argv += ["-o", out]
                    declared = [out]
                count_from = out if r["out"] else "stdout"
            else:
                fa = rfa if r["fasta"] == "present" else os.path.join(rd, "no_such_reads.fa")
                argv = ["realign", rgaf, rgfa, fa] + ([] if r["cores"] == "omitted" else ["-c", r["cores"]])
                if r["out"]:
                    argv += ["-o", out]
                    declared = [out]
                count_from = out if r["out"] else "stdout"
        before = snapshot(d)
        res = plain(argv)
        after = snapshot(d)
        if res["status"] == "ok":
            kind = "ok"
        elif res["status"] == "exit":
            kind = {2: "usage", 1: "error"}.get(res["code"], f"exit{res['code']}")
        else:
            kind = res["status"]
        count = 0
        if kind == "ok" and count_from:
            text = res["stdout"] if count_from == "stdout" else (read_text(count_from) if os.path.exists(count_from) else "")
            count = len(lines_of(text))
        return {"id": cid, "q": q, "kind": kind, "created": sorted(after - before), "declared_ok": all(os.path.exists(p) for p in declared),
                "count": count, "n": n, "detail": (res["exc"] or res.get("stderr", "")[-200:])[:200]}
    finally:
        readers.CASE = None
        os.environ.pop("VERIF_PLAIN_CLI", None)
        shutil.rmtree(d, ignore_errors=True)


def run(ctx):
    ctx.rule = (
        "design: CliTable.tla gives the outcome class (ok / usage error / refused with a message / exception) of every combination of "
        "options of view (input format x graph x --format x --node x --region x index), sort, order_gfa, index and find_path; TLC enumerates "
        "the ~750 requests and checks that usage errors do not depend on the input files, and that the only exceptions are the three named "
        "deviations E3 / E4 / E5 (expected counterexample); binding: every request is made against real files and TLC (Check_Cli) compares the "
        "exit class, the files that appeared (none for a usage error, the declared ones for success) and the number of records written; "
        "non-trivial = requests that are not plain successes"
    )
    r = ctx.tlc("CliTable", "CliTable_dev.cfg", coverage=False, timeout=600)
    ctx.notes["named_deviations"] = [{"deviation": "E3 sort on a GAF in stable coordinates raises KeyError; E4 find_path whose first node is not in the graph raises KeyError; E5 a chromosome named twice in --chromosome_order (without --by-chrom) raises FileNotFoundError at the merge",
                                      "invariant": "NoExceptionOutcome", "counterexample_found": (not r.ok) and r.violated == "NoExceptionOutcome"}]
    if r.ok:
        ctx.violation("named_deviation_not_reproduced_in_model:NoExceptionOutcome", {})
    states, r = gen_states(ctx, "CliTable", "CliTable_q.cfg", coverage=False, timeout=600)
    jobs = []
    for k, st in enumerate(states):
        q = st["req"]
        jobs.append((f"q{k}-{q['cmd']}", {"cmd": q["cmd"], "r": dict(q["r"])}))
    cases = pool_map(run_request, jobs, chunk=8)
    ctx.evaluations += len(cases)
    for c in cases:
        if c["kind"] != "ok":
            ctx.nontrivial.add(c["id"])
    verdicts = ctx.validate("Check_Cli", cases, cfg="Check_Cli.cfg")
    for c in cases:
        v = verdicts[c["id"]]
        if v != "ok":
            ctx.violation(v, c)
    ctx.sample(cases[len(cases) // 3])
    ctx.sample(cases[-1])
    ctx.exhaustive = True
