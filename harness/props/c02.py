"""C02 - conversion is lossless: round trips and untouched columns."""
from props.coords_common import run_mode


def run(ctx):
    ctx.rule = (
        "same enumeration as C01 (every (rGFA, walk) of the bounded Coords generator x all offsets, plus seeded random "
        "graphs); files hold many records so order/count are checked; TLC decides Untouched (columns 1-4, 10-12, "
        "non-cg optional fields) and, for canonical records, exact u->s->u2 and s->u2->s2 round trips; non-trivial as C01"
    )
    run_mode(ctx, "C02")
    ctx.assumptions += ["optional fields are drawn from the alphabet the tag parser preserves so that C16's finding is reported under C16 only"]
