"""C19 - stat reports numbers that match their definitions."""
import json
import os
import random
import re
import shutil
import tempfile
from decimal import Decimal

from engine import SPEC, gen_states, pool_map
from readers import zname, read_out, join_lines, run_cli, write_text, workdir

POOL = json.load(open(os.path.join(SPEC, "data", "stat_pool.json")))
DENS = [1, 2, 4, 5, 8, 10, 16, 20, 25, 40, 50, 80, 100, 125, 200, 250, 400, 500]


def gaf_line(r, k):
    cg = "".join(f"{n}{op}" for n, op in r["cg"])
    opt = ([f"tp:A:{r['tp']}"] if r["tp"] else []) + ["NM:i:1"] + ([f"cg:Z:{cg}"] if cg else [])     # the cg tag is optional
    if k % 3 == 2 and cg:      # the order of the optional fields is free: here the CIGAR comes first
        opt = [f"cg:Z:{cg}"] + [t for t in opt if not t.startswith("cg:Z:")]
    if k % 5 == 3:      # minigraph's difference string in FRONT of the fields the figures are taken from
        opt = ["ds:Z:*+a3-cc:1"] + opt
    if k % 3 == 1:      # aligner-specific tags that restate (here: contradict) the mandatory columns must not be used for the figures
        opt += ["id:f:0.123", "dv:f:0.9", "AS:i:-7", "ql:i:5"]
    return "\t".join([r["name"], str(r["qlen"]), str(r["qs"]), str(r["qe"]), "+-"[k % 2], ">s1>s2", "1000", "0", str(r["bl"]),
                      str(r["m"]), str(r["bl"]), str(r["mq"])] + opt)


def milli(s):
    d = Decimal(s) * 1000
    return int(d) if d == d.to_integral_value() else int(d.to_integral_value())


def parse_report(txt):
    o = {}
    pats = {"total": r"Total alignments: (\d+)", "primary": r"Primary: (\d+)", "secondary": r"Secondary: (\d+)",
            "reads": r"Reads with at least one alignment: (\d+)", "bases": r"Total aligned bases: (\d+)"}
    for k, p in pats.items():
        m = re.search(p, txt)
        o[k] = int(m.group(1)) if m else -1
    for k, p in (("ident_milli", r"Average highest sequence identity: ([-0-9.e]+)"), ("ratio_milli", r"Average highest map ratio: ([-0-9.e]+)")):
        m = re.search(p, txt)
        try:
            o[k] = milli(m.group(1)) if m else -1
        except Exception:  # noqa
            o[k] = -1
    for k, p in (("del", "deletion"), ("ins", "insertion"), ("sub", "substitution"), ("mat", "match")):
        m = re.search(r"Total %s regions: (\d+) \((\d+) >50bps\)" % p, txt)
        o[k] = int(m.group(1)) if m else -1
        o["big" + k] = int(m.group(2)) if m else -1
    m = re.search(r"Total perfect alignments \(exact match\): (\d+)", txt)
    o["perfect"] = int(m.group(1)) if m else -1
    # the report is exactly ONE report: every figure once, and nothing that is not part of it
    o["n_reports"] = len(re.findall(r"^Total alignments:", txt, re.M))
    known = re.compile(r"^(Total alignments:|\tPrimary:|\tSecondary:|Reads with at least one alignment:|Total aligned bases:|Average mapping quality:|"
                       r"Average highest sequence identity:|Average highest map ratio:|Cigar string statistics:|\tTotal (deletion|insertion|substitution|match) regions:|"
                       r"Total perfect alignments \(exact match\):|\* Numbers are based on)")
    o["foreign_lines"] = sum(1 for l in txt.splitlines() if l.strip() and not known.match(l))
    o["has_cigar_section"] = "Cigar string statistics:" in txt
    return o


def run_case(job):
    cid, recs, cigar, storage = job
    import readers as _rd

    _rd.CASE = str(cid)
    d = workdir("stat_", cid)
    try:
        gaf = os.path.join(d, zname("a.gaf", cid) if storage.startswith("bgzf") else "a.gaf")
        if storage == "bgzf_seams":
            from readers import align_starts

            storage = "bgzf"
            al = align_starts([gaf_line(r, k) for k, r in enumerate(recs)], [1 << 16, 1 << 17, 1 << 20], pad=900)
            write_text(gaf, "\n".join(al) + "\n", "bgzf", block=65280)
        else:
            write_text(gaf, join_lines([gaf_line(r, k) for k, r in enumerate(recs)], cid), storage, block=200)
        out = os.path.join(d, "report.txt")
        r = run_cli(["stat", gaf, "-o", out] + (["--cigar"] if cigar else []))
        txt = read_out(out) if os.path.exists(out) else ""
        return {"id": cid, "file": recs, "cigar": cigar, "status": r["status"] if r["status"] == "ok" else r["status"] + ":" + r["exc"][:40],
                "o": parse_report(txt), "storage": storage}
    finally:
        shutil.rmtree(d, ignore_errors=True)


def run(ctx):
    rnd = random.Random(ctx.seed)
    ctx.rule = (
        "TLC enumerates every file of <=3 (quick) / <=4 (thorough) records over a 12-record pool (tp P/S/I/absent, MAPQ 0/1/60, "
        "several records per read in every order, CIGAR runs >=/< 50, adjacent runs of one op) and checks the loop machine "
        "against the declarative Report and permutation invariance; gaftools stat (with and without --cigar, plain/BGZF) runs on "
        "each plus seeded random files; TLC (Check_Stat) decides; non-trivial = file with >=2 records of one read or a secondary record"
    )
    states, r = gen_states(ctx, "Stat", "Stat_t.cfg" if ctx.thorough else "Stat_q.cfg", coverage=False)
    jobs = []
    for k, st in enumerate(s for s in states if s["k"] == 0 and s["input"]):
        recs = [POOL[p - 1] for p in st["input"]]
        jobs.append((f"e{k}", recs, k % 2 == 0, "bgzf" if k % 4 == 3 else "plain"))
    # a GAF without records: every count is 0 (total = primary + secondary = 0), no read, no aligned base
    jobs.append(("empty_plain", [], False, "plain"))
    jobs.append(("empty_cigar", [], True, "plain"))
    jobs.append(("empty_bgzf", [], True, "bgzf"))
    # a BGZF file of more than 1 MiB of text whose records start exactly on 64 KiB, 128 KiB and 1 MiB (chunked readers)
    jobs.append(("seams", [POOL[(5 * k + k // 7) % len(POOL)] for k in range(1300)], True, "bgzf_seams"))
    n_enum = len(jobs)
    for ri in range(2000 if ctx.thorough else 200):
        recs = []
        for _ in range(rnd.randint(1, 12)):
            qlen, bl = rnd.choice(DENS[3:]), rnd.choice(DENS[3:])
            qs = rnd.randint(0, qlen - 1)
            cg, left = [], bl
            while left > 0:
                n = rnd.randint(1, left)
                cg.append([n, rnd.choice("=XID")])
                left -= n
            if rnd.random() < 0.15:
                cg = []
            recs.append({"name": f"r{rnd.randint(1, 4)}", "qlen": qlen, "qs": qs, "qe": rnd.randint(qs + 1, qlen), "m": rnd.randint(0, bl),
                         "bl": bl, "mq": rnd.choice([0, 1, 30, 60, 255]), "tp": rnd.choice(["P", "P", "S", "I", ""]), "cg": cg})
        jobs.append((f"r{ri}", recs, rnd.random() < 0.5, rnd.choice(["plain", "bgzf"])))
    cases = pool_map(run_case, jobs, chunk=16)
    ctx.evaluations += len(cases)
    for c in cases:
        names = [x["name"] for x in c["file"]]
        if len(set(names)) < len(names) or any(x["tp"] in ("S", "I") or x["mq"] == 0 for x in c["file"]):
            ctx.nontrivial.add(json.dumps(c["file"], sort_keys=True) + str(c["cigar"]))
    verdicts = ctx.validate("Check_Stat", cases, cfg="Check_Stat.cfg")
    for c in cases:
        if verdicts[c["id"]] != "ok":
            ctx.violation(verdicts[c["id"]], c)
    ctx.exhaustive = True
    ctx.notes.update({"enumerated_files": n_enum, "random_files": len(jobs) - n_enum})
    ctx.sample(cases[n_enum // 2])
    ctx.assumptions += ["tp:A values P/S/I or absent (lower-case p is outside the generator)", "average mapping quality, '>50bps' counts and 'perfect alignments' are not constrained by the property and not checked",
                        "rounded averages accepted within half a unit of the third decimal (+ float slack)"]
