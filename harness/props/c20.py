"""C20 - phase annotates every record without altering it."""
import json
import os
import random
import shutil
import tempfile
import zlib

from engine import REPO, SPEC, gen_states, pool_map
from readers import zname, read_out, join_lines, run_cli, split_tag, write_text, workdir

DATA = json.load(open(os.path.join(SPEC, "data", "phase_pool.json")))


def gaf_line(r, k):
    cols = [r["name"], "20", "2", "12", r["strand"], r["path"], "30", str(1 + k % 3), str(11 + k % 3), "9", "10", str((k * 17) % 61)]
    opt = [":".join(f) for f in r["opt"]]
    if k % 4 == 1 and opt:      # minigraph's difference string in the MIDDLE of the optional fields (sort appends its fields behind it)
        opt.insert(1, "ds:Z:*+a3-cc:1")
    return "\t".join(cols + opt)


def split_line(line):
    f = line.split("\t")
    return {"cols": f[:12], "ncols": min(len(f), 12), "opt": [split_tag(x) for x in f[12:] if x != ""], "empty_fields": any(x == "" for x in f)}


def run_case(job):
    cid, recs, tsv, storage = job[:4]
    filler = job[4] if len(job) > 4 else 0      # rows of other reads written in front of the real ones (a whole-genome haplotag list)
    import readers as _rd

    _rd.CASE = str(cid)
    d = workdir("phase_", cid)
    try:
        gaf = os.path.join(d, zname("a.gaf", cid) if storage == "bgzf" else "a.gaf")
        lines = [gaf_line(r, k) for k, r in enumerate(recs)]
        if storage == "bgzf" and len(lines) > 3000:
            from readers import align_starts

            lines = align_starts(lines, [1 << 16, 1 << 17, 3 << 16], pad=60)      # records START on 64 KiB seams of the text
            write_text(gaf, "\n".join(lines) + "\n", "bgzf", block=65280)
        else:
            write_text(gaf, join_lines(lines, cid), storage, block=150)
        tp = os.path.join(d, "h.tsv")
        with open(tp, "w") as f:
            for k in range(filler):
                f.write(f"other_read_{k:07d}\tH{1 + k % 2}\t{1000 + k % 977}\tchr{1 + k % 22}\n")
            # the table ends with LF, with CRLF throughout, or without a terminator after its last row
            rows = ["\t".join(row) for row in tsv]
            if rows and rows[0].startswith("#readname\t") and zlib.crc32(("hdr" + str(cid)).encode()) % 2:
                rows = rows[1:]      # the header line is optional (lists filtered with grep / awk, lists joined per chromosome)
            h = zlib.crc32(("tsv" + str(cid)).encode()) % 4
            f.write(("\r\n".join(rows) + "\r\n") if h == 1 and rows else ("\n".join(rows) if h == 0 else "".join(r + "\n" for r in rows)))
        out = os.path.join(d, "out.gaf")
        feeder = None
        if zlib.crc32(("fifo" + str(cid)).encode()) % 6 == 2 and filler == 0:
            # the haplotag table arrives through a pipe (`whatshap haplotag ... | gaftools phase x.gaf /dev/stdin`): it can be read
            # once, front to back, and that is all the command needs
            import threading

            fifo = os.path.join(d, "h.pipe")
            os.mkfifo(fifo)
            data = open(tp, "rb").read()

            def _feed():
                try:
                    with open(fifo, "wb") as w:
                        w.write(data)
                except OSError:
                    pass

            feeder = threading.Thread(target=_feed, daemon=True)
            feeder.start()
            tp = fifo
        r = run_cli(["phase", gaf, tp, "-o", out], cwd_rel=False)
        if feeder is not None:
            # a command that never opened the pipe would leave the writer blocked: open it once for reading to let it go
            if feeder.is_alive():
                try:
                    fd = os.open(tp, os.O_RDONLY | os.O_NONBLOCK)
                    os.close(fd)
                except OSError:
                    pass
            feeder.join(5)
        status = r["status"] if r["status"] == "ok" else r["status"] + ":" + r["exc"][:40]
        # a read listed several times with DIFFERENT annotations: whichever row the command takes (any is accepted), it takes the same
        # one in every process - the same command on the same files is run again in interpreters with other hash seeds
        byname = {}
        for row in tsv:
            byname.setdefault(row[0], set()).add(tuple(row[1:]))
        if status == "ok" and feeder is None and filler == 0 and any(len(v) > 1 for v in byname.values()) and zlib.crc32(("hs" + str(cid)).encode()) % 4 == 0:
            import subprocess
            import sys

            ref_bytes = open(out, "rb").read() if os.path.exists(out) else b""
            for hs in (1, 2, 3):
                o2 = os.path.join(d, f"out_hs{hs}.gaf")
                env = dict(os.environ, PYTHONHASHSEED=str(hs), PYTHONPATH=REPO)
                p2 = subprocess.run([sys.executable, "-m", "gaftools", "phase", gaf, tp, "-o", o2], env=env, capture_output=True, timeout=120)
                if p2.returncode != 0 or not os.path.exists(o2) or open(o2, "rb").read() != ref_bytes:
                    status = "output_depends_on_the_hash_seed_of_the_process"
                    break
        txt = read_out(out) if os.path.exists(out) else ""
        olines = txt.split("\n")
        if olines and olines[-1] == "":
            olines = olines[:-1]
        return {"id": cid, "status": status, "tsv": tsv,
                "inp": [split_line(l) for l in lines], "out": [split_line(l) for l in olines], "storage": storage, "raw_out": olines[:3]}
    finally:
        shutil.rmtree(d, ignore_errors=True)


def run(ctx):
    rnd = random.Random(ctx.seed)
    ctx.rule = (
        "TLC enumerates every (TSV, file) with files of <=2 (quick) / <=3 (thorough) records over a pool (both strands, stable / "
        "unstable / bare-contig paths, 0-2 optional fields) x 6 TSV shapes (absent, H1/H2, none, repeated rows with different "
        "contigs/phases) and checks the first-row-wins machine against the declarative Allowed set; gaftools phase runs on each "
        "plus seeded random combinations; TLC (Check_Phase) decides; non-trivial = TSV lists a read of the file"
    )
    states, r = gen_states(ctx, "Phase", "Phase_t.cfg" if ctx.thorough else "Phase_q.cfg", coverage=False)
    jobs = []
    for k, st in enumerate(s for s in states if s["loaded"] == 0 and s["nout"] == 0 and s["input"]):
        recs = [DATA["recs"][p - 1] for p in st["input"]]
        jobs.append((f"e{k}", recs, DATA["tsvs"][st["tsv"] - 1], "bgzf" if k % 3 == 2 else "plain"))
    n_enum = len(jobs)
    names = sorted({r["name"] for r in DATA["recs"]})
    for ri in range(600 if ctx.thorough else 100):
        recs = [rnd.choice(DATA["recs"]) for _ in range(rnd.randint(1, 8))]
        tsv = []
        for _ in range(rnd.randint(0, 8)):
            h = rnd.choice(["H1", "H2", "none"])
            tsv.append([rnd.choice(names + ["other"]), h, "none" if h == "none" else str(rnd.randint(1, 999)), rnd.choice(["chr1", "chr2", "chrX"])])
        jobs.append((f"r{ri}", recs, tsv, rnd.choice(["plain", "bgzf"])))
    # large files: output written in batches has its boundaries there (1000, 4096, 8192, ...)
    for bi, n in enumerate([10000, 4097] if ctx.thorough else [8200, 4097]):      # (the second one is BGZF with records on 64 KiB seams)
        recs = [DATA["recs"][(7 * k + k // 11) % len(DATA["recs"])] for k in range(n)]
        jobs.append((f"big{bi}", recs, DATA["tsvs"][3 + bi], "bgzf" if bi else "plain", 650000 if bi == 0 else 0))      # > 16 MiB of TSV in front
    cases = pool_map(run_case, jobs, chunk=16)
    ctx.evaluations += len(cases)
    for c in cases:
        if {row[0] for row in c["tsv"]} & {x["cols"][0] for x in c["inp"]}:
            ctx.nontrivial.add(json.dumps([c["tsv"], [x["cols"][0] for x in c["inp"]]]))
    verdicts = ctx.validate("Check_Phase", cases, cfg="Check_Phase.cfg")
    for c in cases:
        if verdicts[c["id"]] != "ok":
            ctx.violation(verdicts[c["id"]], c)
    ctx.exhaustive = True
    ctx.notes.update({"enumerated": n_enum, "random": len(jobs) - n_enum})
    ctx.sample({k: cases[n_enum // 2][k] for k in ("tsv", "inp", "out")})
    ctx.assumptions += ["output via -o FILE and, in one call of four, via standard output; optional fields from the parser-safe alphabet (C16 covers the rest)",
                        "for a read listed several times any row's annotation is accepted; the position of ps:Z/ht:Z among the optional fields is free"]
