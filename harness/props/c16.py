"""C16 - GAF optional fields survive parsing and re-serialisation verbatim."""
import os
import random
import shutil
import tempfile

from engine import gen_states, pool_map
from readers import read_out, join_lines, run_cli, split_tag, write_text, workdir, lines_of

N1 = "ACGTTGCAAGGCTTAACGGATCCA"
N2 = "TTGACCGATAGGCATCAAGT"
RC = str.maketrans("ACGT", "TGCA")


def qname(k):
    # read names are free text: FASTQ-style names keep their '@', some pipelines prefix '#'; only U+0020 ends a name - a
    # no-break space or an ideographic space is part of it (a form feed would end the name in the FASTA index of the reads)
    return ["q%d", "q%d", "@q%d", "q%d", "#q%d", "q%d"][k % 6] % k + ["", "", "", "\u00a0ccs", "", "\u3000A/7", ""][k % 7]


def make_line(k, fields, cgpos, rev, spaced):
    path = "<s2<s1" if rev else ">s1>s2"
    plen = len(N1) + len(N2)
    L = 30
    name = qname(k) + (" extra words" if spaced else "")
    opt = [":".join(f) for f in fields]
    if cgpos:
        opt.insert(cgpos - 1, f"cg:Z:{L - 1}=1X")
    return "\t".join([name, str(L), "0", str(L), "+", path, str(plen), "5", str(5 + L), str(L - 1), str(L), str((k * 7) % 61)] + opt)


def read_seq(rev):
    p = N1 + N2
    if rev:
        p = p[::-1].translate(RC)
    s = list(p[5:35])
    s[-1] = "A" if s[-1] != "A" else "C"
    return "".join(s)


def split_line(line):
    f = line.split("\t")
    return {"cols": f[:12], "opt": [split_tag(x) for x in f[12:]]}


def pair_up(inp_lines, out_lines, by_name=True):
    """k-th input with the output record of the same (cut) read name; names are unique"""
    outs = {}
    for l in out_lines:
        outs.setdefault(l.split("\t")[0], l)
    recs = []
    for l in inp_lines:
        nm = l.split("\t")[0].split(" ")[0]
        o = outs.get(nm)
        recs.append({"inp": split_line(l), "out": split_line(o) if o is not None else {"cols": [], "opt": []}, "missing": o is None,
                     "pt": nm == "bare_long"})       # pt: realign passes this record through unchanged (> 60,000 aligned read bases)
    return recs


def run_file(job):
    fid, specs, do_realign = job
    import readers as _rd

    _rd.CASE = str(fid)
    d = workdir("tags_", fid)
    try:
        gfa = os.path.join(d, "g.gfa")
        write_text(gfa, f"S\ts1\t{N1}\tLN:i:{len(N1)}\tSN:Z:chr1\tSO:i:0\tSR:i:0\nS\ts2\t{N2}\tLN:i:{len(N2)}\tSN:Z:chr1\tSO:i:{len(N1)}\tSR:i:0\nL\ts1\t+\ts2\t+\t0M\n")
        lines = [make_line(k, fl, cg, rev, sp) for (k, fl, cg, rev, sp) in specs]
        gaf = os.path.join(d, "u.gaf")
        write_text(gaf, join_lines(lines, fid))
        cases = []

        def emit(path, argv, inp_lines, out_path, mode=None):
            r = run_cli(argv, timeout=120)
            out = lines_of(read_out(out_path)) if os.path.exists(out_path) else []
            st = r["status"] if r["status"] == "ok" else r["status"] + ":" + r["exc"][:50]
            def cut(l):
                return l.split("\t")[0].split(" ")[0]

            # (all of these commands keep the input order; a selection keeps the order of the selected records)
            sel = {cut(l) for l in out}
            in_order = [cut(l) for l in out] == [cut(l) for l in inp_lines if cut(l) in sel]
            cases.append({"id": f"{fid}.{path}", "path": mode or path, "status": st, "recs": pair_up(inp_lines, out), "in_order": in_order})
            return out

        run_cli(["index", gaf, gfa])
        emit("node", ["view", gaf, "-n", "s1", "-o", os.path.join(d, "o1")], lines, os.path.join(d, "o1"))
        st = emit("stable", ["view", gaf, "-g", gfa, "-f", "stable", "-o", os.path.join(d, "s.gaf")], lines, os.path.join(d, "s.gaf"))
        if st and len(st) == len(lines):
            emit("unstable", ["view", os.path.join(d, "s.gaf"), "-g", gfa, "-f", "unstable", "-o", os.path.join(d, "o3")], st, os.path.join(d, "o3"))
        emit("node_stable", ["view", gaf, "-n", "s2", "-g", gfa, "-f", "stable", "-o", os.path.join(d, "o4")], lines, os.path.join(d, "o4"))
        if len(lines) > 700:
            # the big file once more as multi-block BGZF whose records START exactly on 64 KiB / 128 KiB of the uncompressed text
            # (readers that work in chunks have their seams there), converted as a whole and selected by node
            from readers import align_starts

            al = align_starts(lines, [1 << 16, 1 << 17, 3 << 16], pad=40)
            zg = os.path.join(d, "aligned.gaf.gz")
            write_text(zg, "\n".join(al) + "\n", "bgzf", block=65280)
            emit("stable_bgzf_seams", ["view", zg, "-g", gfa, "-f", "stable", "-o", os.path.join(d, "o7")], al, os.path.join(d, "o7"), mode="stable")
        # one record longer than 64 KiB, selected by node from a plain file (a line has no maximal length)
        f0_ = lines[0].split("\t")
        longrec = "\t".join(["longline" + str(fid)] + f0_[1:] + ["zz:Z:" + "p" * 70000, "xb:B:i,1,2", "xa:A:k"])
        lg = os.path.join(d, "long.gaf")
        write_text(lg, longrec + "\n" + lines[0] + "\n")
        run_cli(["index", lg, gfa])
        emit("node_long_line", ["view", lg, "-n", "s1", "-o", os.path.join(d, "o8")], [longrec, lines[0]], os.path.join(d, "o8"), mode="node")
        if fid in ("f0", "f1", "f2", "f3"):
            # the real command line with a standard output that cannot encode every character (PYTHONIOENCODING=ascii, a C locale
            # without UTF-8 mode, a cp1252 console): refusing loudly is fine, writing something else than the records is not
            import subprocess
            import sys
            from engine import REPO

            pr = subprocess.run([sys.executable, "-m", "gaftools", "view", gaf, "-n", "s1"], capture_output=True, timeout=120,
                                env=dict(os.environ, PYTHONPATH=REPO, PYTHONIOENCODING="ascii", PYTHONUTF8="0"))
            if pr.returncode == 0:
                outl = lines_of(pr.stdout.decode("utf-8", "replace"))
                cases.append({"id": f"{fid}.node_ascii_stdout", "path": "node", "status": "ok", "recs": pair_up(lines, outl), "in_order": True})
        # the same path, now holding the BGZF form of the same records (what `sort --bgzip -o` or a re-compression leaves):
        # the reader decides by content, in this process it has read the path as plain text a moment ago
        write_text(gaf, join_lines(lines, fid), "bgzf", block=250)
        run_cli(["index", gaf, gfa])
        emit("node_same_path_now_bgzf", ["view", gaf, "-n", "s1", "-o", os.path.join(d, "o6")], lines, os.path.join(d, "o6"))
        write_text(gaf, join_lines(lines, fid))
        if do_realign:
            fa = os.path.join(d, "r.fa")
            rlines, extra_reads = lines, []
            if fid == "f0":
                # two records WITHOUT any optional field in front of the batch: a short one (realigned, gains its cg) and one with
                # 60,001 aligned read bases, which is documented to be written back as it is
                import random as _r

                big = "".join(_r.Random(11).choice("ACGT") for _ in range(60010))
                if not read_out(gfa).endswith("\n"):
                    with open(gfa, "a") as f:
                        f.write("\n")
                with open(gfa, "a") as f:
                    f.write(f"S\ts3\t{big}\tLN:i:{len(big)}\tSN:Z:chr1\tSO:i:{len(N1) + len(N2)}\tSR:i:0\nL\ts2\t+\ts3\t+\t0M\n")
                short = N1[2:22]
                rlines = ["\t".join(["bare_short", "20", "0", "20", "+", ">s1", str(len(N1)), "2", "22", "20", "20", "60"]),
                          "\t".join(["bare_long", "60001", "0", "60001", "+", ">s3", str(len(big)), "3", "60004", "60001", "60001", "60"])] + lines
                extra_reads = [("bare_short", short), ("bare_long", big[3:60004])]
                gaf_r = os.path.join(d, "r.gaf")
                write_text(gaf_r, "\n".join(rlines) + "\n")
            else:
                gaf_r = gaf
            with open(fa, "w") as f:
                for nm_, sq_ in extra_reads:
                    f.write(f">{nm_}\n{sq_}\n")
                for (k, fl, cg, rev, sp) in specs:
                    f.write(f">{qname(k)}\n{read_seq(rev)}\n")
            emit("realign", ["realign", gaf_r, gfa, fa, "-o", os.path.join(d, "o5")] + (["-c", "2"] if len(rlines) > 2000 else []), rlines, os.path.join(d, "o5"))
        return cases
    finally:
        shutil.rmtree(d, ignore_errors=True)


def run(ctx):
    rnd = random.Random(ctx.seed)
    ctx.rule = (
        "TLC enumerates every optional-field list of the GafRecord generator (first field: every type with every value of the "
        "punctuation alphabet up to length 2 quick / 3 thorough, signed ints, floats with sign/exponent/leading dot, A, H, B; second "
        "field from a representative set incl. a repeated tag; cg absent or at every position); each record (forward and reverse "
        "walks, names with spaces) goes through view --node, view --format stable, --format unstable, --node --format and realign; "
        "TLC (Check_Tags) compares <tag,type,value> sequences; non-trivial = record with a value outside [A-Za-z0-9.]"
    )
    states, r = gen_states(ctx, "GafRecord", "GafRecord_t.cfg" if ctx.thorough else "GafRecord_q.cfg", coverage=False)
    specs = []
    for k, st in enumerate(states):
        fl = [list(f) for f in st["fields"]]
        specs.append((k, fl, st["cgpos"], k % 3 == 1, k % 7 == 3))
        if any(not v.replace(".", "").isalnum() for _, _, v in fl):
            ctx.nontrivial.add(k)
    rnd.shuffle(specs)
    per = 400
    # the first file is a large one (2,100 records; 4,200 in the thorough tier): output written in batches has boundaries there
    big = min(len(specs), 4200 if ctx.thorough else 2100)
    jobs = [("f0", specs[:big], True)]
    rest = specs[big:]
    jobs += [(f"f{j + 1}", rest[j * per : (j + 1) * per], j < (12 if ctx.thorough else 2)) for j in range((len(rest) + per - 1) // per)]
    res = pool_map(run_file, jobs, chunk=1)
    cases = [c for cs in res for c in cs]
    ctx.evaluations += sum(len(c["recs"]) for c in cases)
    verdicts = ctx.validate("Check_Tags", cases, cfg="Check_Tags.cfg")
    for c in cases:
        v = verdicts[c["id"]]
        if v not in ("ok", []):
            bad = dict(c)
            bad["recs"] = [q for q in c["recs"] if q["inp"]["opt"] != q["out"]["opt"] or q["inp"]["cols"] != q["out"]["cols"]][:40]
            ctx.record(v, bad)
    ctx.exhaustive = True
    c = cases[0]
    ctx.sample({"path": c["path"], "recs": c["recs"][:3]})
    ctx.assumptions += ["values never contain a tab; a repeated cg tag and CRLF line ends are outside the generator",
                        "realign may write a cg:Z field for a record that had none (it computes the CIGAR)"]
