"""C15 - graph decomposition primitives are exact; edit histories keep the store consistent."""
import os
import random

from engine import REPO, gen_states, pool_map
from tlaval import parse_action_label
import tours


def name(n):
    return f"n{n}"


def unname(s):
    return int(s[1:])


def project(g):
    half = []
    for nid, nd in g.nodes.items():
        for (m, t, ov) in nd.start:
            half.append([unname(nid), 0, unname(m), t, ov])
        for (m, t, ov) in nd.end:
            half.append([unname(nid), 1, unname(m), t, ov])
    et = []
    for k, v in g.edge_tags.items():
        et.append([unname(k[0]), k[1], unname(k[2]), k[3], list(v)] + ([k[4]] if len(k) > 4 else []))
    return {"nodes": sorted(unname(n) for n in g.nodes), "half": sorted(half), "etags": sorted(et)}


def queries(g):
    q = {"exc": "", "comps": [], "bicc": [], "dfs": []}
    try:
        comps = g.all_components()
        q["comps"] = [sorted(unname(n) for n in c) for c in comps]
        for c in comps:
            sub = g.graph_from_comp(c)
            blocks, artic = sub.biccs()
            q["bicc"].append(
                {"c": sorted(unname(n) for n in c), "blocks": [sorted(unname(n) for n in b) for b in blocks],
                 "artic": sorted(unname(n) for n in artic)}
            )
        for n in list(g.nodes):
            q["dfs"].append({"s": unname(n), "order": [unname(x) for x in g.dfs(n)]})
    except Exception as e:  # noqa
        q["exc"] = f"{type(e).__name__}: {e}"[:200]
    return q


def apply_op(g, o):
    if o["op"] == "AddNode":
        if o["n"] % 3 == 0:
            g.add_node(name(o["n"]))       # a node without sequence, as every node of a graph loaded with low_memory=True
        else:
            g.add_node(name(o["n"]), "ACGT"[: 1 + o["n"] % 4])
    elif o["op"] == "DelNode":
        if o["n"] % 2:
            del g[name(o["n"])]      # the documented deletion syntax (GFA.__delitem__)
        else:
            g.remove_node(name(o["n"]))
    else:
        g.add_edge(name(o["a"]), o["ao"], name(o["b"]), o["bo"], o["ov"], list(o["tg"]) or None)


def run_loaded(cid, ops, how):
    """the same graph, not built through the API but written as a GFA file (overlaps as given, sequences or '*') and LOADED:
    GFA(path) / GFA(path, low_memory=True) / gzip-compressed. Only the final state can be observed."""
    import tempfile
    import shutil
    from gaftools.gfa import GFA

    from readers import workdir

    d = workdir("c15load_", cid)
    try:
        lines = ["H\tVN:Z:1.0"]
        for o in ops:
            if o["op"] == "AddNode":
                sq = "ACGT"[: 1 + o["n"] % 4]
                lines.append(f"S\t{name(o['n'])}\t{'*' if how == 'star' else sq}\tLN:i:{len(sq)}" + ["\tdp:f:.5\tRC:i:0042\tSG:Z:", "\tSN:Z:chr1:1000-2000\tSO:i:0\tSG:Z:Homo sapiens", "\tur:Z:file:///ref/x.fa\txd:i:+3\txh:f:-.25e1"][o["n"] % 3])
        for o in ops:
            if o["op"] == "AddLink":
                lines.append("\t".join(["L", name(o["a"]), o["ao"], name(o["b"]), o["bo"], f"{o['ov']}M"] + list(o["tg"])))
        path = os.path.join(d, "g.gfa" + (".gz" if how == "gz" else ""))
        from readers import write_text

        write_text(path, "\n".join(lines) + "\n", "gz" if how == "gz" else "plain")      # (in one of the layouts of readers.gfa_layout)
        empty = {"nodes": [], "half": [], "etags": []}
        noq = {"exc": "", "comps": [], "bicc": [], "dfs": []}
        events = [{"o": o, "exc": "", "hasq": False, "skip": True, "proj": empty, "q": noq} for o in ops]
        try:
            g = GFA(path, low_memory=(how in ("lm", "star")))
            pj = project(g)
            pj["etags"] = [t for t in pj["etags"] if t[4] != [0]]      # the reader's placeholder for "no tags"
            events[-1].update({"skip": False, "proj": pj, "hasq": True, "q": queries(g)})
        except Exception as e:  # noqa
            events[-1]["exc"] = f"{type(e).__name__}: {e}"[:200]
        return {"id": cid, "events": events, "qmask": [False] * (len(ops) - 1) + [True], "loaded": how}
    finally:
        shutil.rmtree(d, ignore_errors=True)


def run_history(job):
    cid, ops, qmask = job[:3]
    if len(job) > 3:
        return run_loaded(cid, ops, job[3])
    from gaftools.gfa import GFA

    g = GFA()
    events = []
    for k, o in enumerate(ops):
        ev = {"o": o, "exc": "", "hasq": False, "skip": False, "proj": {"nodes": [], "half": [], "etags": []}, "q": {"exc": "", "comps": [], "bicc": [], "dfs": []}}
        try:
            apply_op(g, o)
            ev["proj"] = project(g)
        except Exception as e:  # noqa
            ev["exc"] = f"{type(e).__name__}: {e}"[:200]
            events.append(ev)
            break
        if qmask[k]:
            ev["hasq"] = True
            ev["q"] = queries(g)
        events.append(ev)
    return {"id": cid, "events": events, "qmask": qmask}


def label_to_op(lab):
    t, a = parse_action_label(lab)
    if t == "AddNode":
        return {"op": "AddNode", "n": a[0]}
    if t == "DelNode":
        return {"op": "DelNode", "n": a[0]}
    return {"op": "AddLink", "a": a[0], "ao": a[1], "b": a[2], "bo": a[3], "ov": a[4], "tg": list(a[5])}


def masks(n, rnd, few):
    """query points: after every op / only at the end / at one intermediate op and at the end"""
    out = [[True] * n, [False] * (n - 1) + [True]]
    ks = list(range(n - 1))
    if few and len(ks) > few:
        ks = rnd.sample(ks, few)
    for k in ks:
        m = [False] * n
        m[k] = True
        m[-1] = True
        out.append(m)
    return out


def build_ops_for_state(st):
    ops = [{"op": "AddNode", "n": n} for n in sorted(st["nodes"])]
    for l in st["links"]:
        ends = sorted(list(e) for e in l["ends"])
        (a, sa), (b, sb) = (ends[0], ends[0]) if len(ends) == 1 else ends
        ops.append({"op": "AddLink", "a": a, "ao": "+" if sa == 1 else "-", "b": b, "bo": "+" if sb == 0 else "-", "ov": l["ov"], "tg": []})
    return ops


def run(ctx):
    rnd = random.Random(ctx.seed)
    ctx.rule = (
        "histories: transition tour over every edge of the bounded GfaStore state graph (add-node, add-link with "
        "every side combination / self-links / tags, delete-node) executed on gaftools.gfa.GFA, each with several "
        "query-point masks; graphs: every simple graph on <=5 (quick) / <=6 (thorough) nodes plus seeded random "
        "multigraphs, queried for components, blocks, articulation points, dfs; non-trivial = history with a "
        "deletion, or graph with >= 1 articulation point"
    )
    # ---- histories (spec -> code -> spec)
    hcfgs = ["GfaStore_c15ht.cfg", "GfaStore_c15hq2.cfg"] if ctx.thorough else ["GfaStore_c15hq.cfg", "GfaStore_c15hq2.cfg"]
    jobs = []
    hist_notes = []
    for hcfg in hcfgs:
        (nodes, edges, init), r = gen_states(ctx, "MC_GfaStore", hcfg, dot=True, coverage=False)
        g = tours.Graph({k: None for k in nodes}, edges, init)
        g._to_term = {}  # no need to run to terminal states
        if g.nedges <= 120000:
            beh = tours.transition_tour(g, max_len=14)
            covered = "every edge (transition tour)"
        else:   # too large for a full tour in pure Python: seeded random histories instead
            beh = tours.random_walks(g, 6000, ctx.seed, max_len=12)
            covered = "6000 seeded random histories of up to 12 operations"
        tag = hcfg[9:-4]
        for bi, b in enumerate(beh):
            ops = [label_to_op(l) for l, _ in b]
            if not ops:
                continue
            for mi, m in enumerate(masks(len(ops), rnd, 2 if "hq.cfg" in hcfg or "ht.cfg" in hcfg else 0)):
                jobs.append((f"{tag}h{bi}m{mi}", ops, m))
            if any(o["op"] == "DelNode" for o in ops):
                ctx.nontrivial.add(("hist", tag, bi))
        hist_notes.append({"cfg": hcfg, "states": r.distinct, "edges": g.nedges, "behaviours": len(beh), "coverage": covered})
    ctx.notes["history_state_graphs"] = hist_notes
    cases = pool_map(run_history, jobs, chunk=64)
    ctx.evaluations += len(cases)
    if cases:
        c = max(cases, key=lambda c: len(c["events"]))
        ctx.sample({"history": [e["o"] for e in c["events"]], "query_mask": c["qmask"], "final_projection": c["events"][-1]["proj"]})
    # ---- graphs
    gcfg = "GfaStore_c15gt.cfg" if ctx.thorough else "GfaStore_c15gq.cfg"
    states, r2 = gen_states(ctx, "MC_GfaStore", gcfg, coverage=False)
    gjobs = []
    for si, st in enumerate(states):
        ops = build_ops_for_state(st)
        if ops:
            gjobs.append((f"g{si}", ops, [False] * (len(ops) - 1) + [True]))
    # seeded random multigraphs with side labels, parallel links and self-links
    nrand = 3000 if ctx.thorough else 300
    for ri in range(nrand):
        n = rnd.randint(3, 9 if not ctx.thorough else 14)
        ops = [{"op": "AddNode", "n": k} for k in range(1, n + 1)]
        for _ in range(rnd.randint(n - 1, 2 * n)):
            a, b = rnd.randint(1, n), rnd.randint(1, n)
            ops.append({"op": "AddLink", "a": a, "ao": rnd.choice("+-"), "b": b, "bo": rnd.choice("+-"), "ov": rnd.choice([0, 0, 3]), "tg": []})
        gjobs.append((f"r{ri}", ops, [False] * (len(ops) - 1) + [True]))
    # the repository's fixture graphs, and neighbourhoods cut out of its real chr1 graph (90k segments): real bubble shapes
    import gzip

    def ops_from_lines(lines, keep=None):
        ids, ops = {}, []
        for l in lines:
            f = l.rstrip("\n").split("\t")
            if f[0] == "S" and (keep is None or f[1] in keep):
                ids[f[1]] = len(ids) + 1
                ops.append({"op": "AddNode", "n": ids[f[1]]})
        for l in lines:
            f = l.rstrip("\n").split("\t")
            if f[0] == "L" and f[1] in ids and f[3] in ids:
                ops.append({"op": "AddLink", "a": ids[f[1]], "ao": f[2], "b": ids[f[3]], "bo": f[4], "ov": int(f[5][:-1]), "tg": []})
        return ops

    for fx in ("smallgraph.gfa", "test_GFA_class.gfa", "test_GFA_class_wrong_graph.gfa", "smallgraph_withN.gfa"):
        ops = ops_from_lines(open(REPO + "/tests/data/" + fx).read().splitlines())
        gjobs.append((f"fx_{fx}", ops, [False] * (len(ops) - 1) + [True]))
    big = gzip.open(REPO + "/tests/data/large-graph-chr1.gfa.gz", "rt").read().splitlines()
    adj = {}
    for l in big:
        if l.startswith("L"):
            f = l.split("\t")
            adj.setdefault(f[1], []).append(f[3])
            adj.setdefault(f[3], []).append(f[1])
    names = sorted(adj)
    for bi in range(60 if ctx.thorough else 12):
        start = rnd.choice(names)
        ball, frontier = [start], [start]
        while frontier and len(ball) < rnd.randint(6, 14):
            x = frontier.pop(0)
            for y in adj.get(x, []):
                if y not in ball and len(ball) < 14:
                    ball.append(y)
                    frontier.append(y)
        ops = ops_from_lines(big, set(ball))
        if len(ops) > 1:
            gjobs.append((f"ball{bi}", ops, [False] * (len(ops) - 1) + [True]))
    # every third graph is also read from a file it was written to: plain, low-memory, '*' sequences, gzip
    loaded = []
    for k, j in enumerate(gjobs):
        if k % 3 == 0 and not any(o["op"] == "DelNode" for o in j[1]) and any(o["op"] == "AddLink" for o in j[1]):
            loaded.append((j[0] + "_ld", j[1], j[2], ["full", "lm", "star", "gz"][(k // 3) % 4]))
    gjobs += loaded
    gcases = pool_map(run_history, gjobs, chunk=64)
    ctx.evaluations += len(gcases)
    for c in gcases:
        q = c["events"][-1]["q"]
        if any(b["artic"] for b in q["bicc"]):
            ctx.nontrivial.add(("graph", c["id"]))
    allc = cases + gcases
    verdicts = ctx.validate("Check_C15", allc, cfg="Check_C15.cfg")
    for c in allc:
        v = verdicts[c["id"]]
        if v != "ok":
            ctx.violation(v, {"ops": [e["o"] for e in c["events"]], "qmask": c["qmask"], "last_event": c["events"][-1]})
    ctx.exhaustive = True
    ctx.assumptions += [
        "biccs is queried per connected component through graph_from_comp, as order_gfa does (the property quantifies over connected graphs)",
        "self-links are not counted in 'every link in exactly one component'",
        "bfs/find_component called directly are outside the history alphabet (DESIGN 7.2)",
    ]
