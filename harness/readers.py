"""Independent readers/writers (format splitting only; interpretation lives in TLA+) and the
in-process CLI runner. gaftools is never its own oracle: nothing here imports gaftools except
`run_cli`, which *executes* it."""

import gzip
import io
import logging
import os
import pickle
import re
import signal
import struct
import sys
import zlib
from contextlib import contextmanager

# --------------------------------------------------------------------------- BGZF

_EOF = bytes.fromhex("1f8b08040000000000ff0600424302001b0003000000000000000000")


def bgzf_block(data):
    assert len(data) <= 65280
    co = zlib.compressobj(6, zlib.DEFLATED, -15)
    comp = co.compress(data) + co.flush()
    bsize = len(comp) + 25
    hdr = struct.pack("<BBBBIBBHBBHH", 0x1F, 0x8B, 8, 4, 0, 0, 0xFF, 6, ord("B"), ord("C"), 2, bsize)
    return hdr + comp + struct.pack("<II", zlib.crc32(data) & 0xFFFFFFFF, len(data))


def write_bgzf(path, data, block=60000):
    """Write `data` (bytes) as BGZF with `block` uncompressed bytes per block."""
    if isinstance(data, str):
        data = data.encode()
    with open(path, "wb") as f:
        for i in range(0, len(data), block):
            f.write(bgzf_block(data[i : i + block]))
        f.write(_EOF)


def bgzf_blocks(path):
    """[(coffset, uncompressed bytes)] by walking the BGZF block headers (stdlib only)."""
    out = []
    with open(path, "rb") as f:
        raw = f.read()
    pos = 0
    while pos < len(raw):
        if raw[pos : pos + 4] != b"\x1f\x8b\x08\x04":
            raise ValueError("not a BGZF block at %d" % pos)
        xlen = struct.unpack_from("<H", raw, pos + 10)[0]
        extra = raw[pos + 12 : pos + 12 + xlen]
        bsize = None
        k = 0
        while k < len(extra):
            si1, si2, slen = extra[k], extra[k + 1], struct.unpack_from("<H", extra, k + 2)[0]
            if si1 == 66 and si2 == 67:
                bsize = struct.unpack_from("<H", extra, k + 4)[0] + 1
            k += 4 + slen
        cdata = raw[pos + 12 + xlen : pos + bsize - 8]
        data = zlib.decompress(cdata, -15)
        out.append((pos, data))
        pos += bsize
    return out


def read_bgzf(path):
    return b"".join(d for _, d in bgzf_blocks(path))


def bgzf_line_at(path, voffset, blocks=None):
    """The text line starting at BGZF virtual offset `voffset` (coffset<<16 | uoffset)."""
    blocks = blocks or bgzf_blocks(path)
    co, uo = voffset >> 16, voffset & 0xFFFF
    buf = b""
    started = False
    for c, d in blocks:
        if c == co:
            started = True
            buf = d[uo:]
        elif started:
            buf += d
        if started and b"\n" in buf:
            break
    if not started:
        raise ValueError("virtual offset does not address a block start")
    return buf.split(b"\n", 1)[0].rstrip(b"\r").decode()


def plain_line_at(path, off):
    with open(path, "rb") as f:
        f.seek(off)
        return f.readline().rstrip(b"\r\n").decode()


def line_at(path, off, bgzf):
    return bgzf_line_at(path, off) if bgzf else plain_line_at(path, off)


def gfa_layout(text):
    """A GFA text in another, equally valid layout, chosen by a stable hash of the text: (1) segment by segment, every S line
    preceded by the L lines that leave it - so a link comes BEFORE the S lines of its segments; (2) the same graph
    without a line terminator after its last line; (3) both; (0) as given. Header / other records keep their place at the top."""
    h = zlib.crc32(text.encode()) % 4
    if h == 0 or os.environ.get("VERIF_PLAIN_CLI") == "1":
        return text
    lines = text.split("\n")
    final = lines and lines[-1] == ""
    if final:
        lines = lines[:-1]
    if h in (1, 3):
        S = [l for l in lines if l.startswith("S\t")]
        L = [l for l in lines if l.startswith("L\t")]
        O = [l for l in lines if not l.startswith("S\t") and not l.startswith("L\t")]
        by_from = {}
        for l in L:
            by_from.setdefault(l.split("\t")[1], []).append(l)
        out = list(O)
        seen = set()
        for sl in S:                 # the links that leave a segment stand BEFORE its S line
            sid = sl.split("\t")[1]
            if sid not in seen:
                out += by_from.pop(sid, [])
                seen.add(sid)
            out.append(sl)
        for rest in by_from.values():      # links of segments without an S line (left as they are)
            out += rest
        lines = out
    if h in (1, 3):
        # a graph cut out of a larger one keeps links to segments that are not in the file: they are no links of THIS graph
        k = next((i for i, l in enumerate(lines) if l.startswith("S\t")), None)
        if k is not None:
            lines.append(f"L\t{lines[k].split(chr(9))[1]}\t+\tsegment_not_in_this_file\t+\t0M")
    if h in (2, 3) and not any(l.startswith(("P\t", "W\t")) for l in lines):
        # path / walk / comment records may stand anywhere: here between the first segment and the rest of the graph
        k = next((i for i, l in enumerate(lines) if l.startswith("S\t")), None)
        if k is not None:
            sid = lines[k].split("\t")[1]
            lines[k + 1:k + 1] = [f"P\tharness_path\t{sid}+\t*", f"W\tsmp\t0\tctg\t0\t1\t>{sid}", "# graphe ordonn\u00e9 (a comment, not ASCII)", ""]
        if not any(l.startswith("H\t") for l in lines):
            lines.insert(0, "H\tVN:Z:1.0")
    text = "\n".join(lines)
    if final and h == 1:
        text += "\n"
    elif final and h in (2, 3):
        pass      # no terminator after the last line
    return text


def read_out(path):
    """text of a file written by the implementation; bytes that are not UTF-8 become U+FFFD instead of breaking the harness"""
    with open(path, "r", encoding="utf-8", errors="replace") as f:
        return f.read()


def write_text(path, text, storage="plain", block=60000):
    base = os.path.basename(path)
    if (base.endswith(".gfa") or base.endswith(".gfa.gz")) and storage in ("plain", "gz") and (text.startswith("S\t") or "\nS\t" in text) and not getattr(write_text, "keep_layout", False):
        text = gfa_layout(text)
    if storage == "plain":
        with open(path, "w", encoding="utf-8") as f:
            f.write(text)
    elif storage == "bgzf":
        write_bgzf(path, text.encode(), block)
    elif storage == "gz":
        data = text.encode("utf-8")
        if len(data) > 40 and zlib.crc32(data) % 3 == 1 and os.environ.get("VERIF_PLAIN_CLI") != "1":
            # a gzip file may consist of several members (`cat a.gz b.gz`, bgzip): here three, cut in mid-line
            a, b = len(data) // 3, 2 * len(data) // 3
            with open(path, "wb") as f:
                for part in (data[:a], data[a:b], data[b:]):
                    f.write(gzip.compress(part))
        else:
            with gzip.open(path, "wt", encoding="utf-8") as f:
                f.write(text)
    else:
        raise ValueError(storage)


def workdir(prefix, key):
    """scratch directory of a case; one case in five gets it on ANOTHER file system than the system temp directory
    (/dev/shm, when it is one): renames from the temp directory, hard links and the like stop working across that border"""
    import tempfile

    shm = "/dev/shm"
    try:
        other = os.path.isdir(shm) and os.access(shm, os.W_OK) and os.stat(shm).st_dev != os.stat(tempfile.gettempdir()).st_dev
    except OSError:
        other = False
    # one case in four works in a directory whose name has blanks and non-ASCII characters in it
    odd = "my data.v2 \u00e9\u00fc " if zlib.crc32(("wdname" + str(key)).encode()) % 4 == 1 else ""
    if other and zlib.crc32(("wd" + str(key)).encode()) % 5 == 0:
        return tempfile.mkdtemp(prefix="verif_" + odd + prefix, dir=shm)
    return tempfile.mkdtemp(prefix=odd + prefix)


def zname(base, key, choices=(".gz", ".bgz", ".bgzf", "")):
    """name of a BGZF-compressed file: compression is recognised by content, the suffix is the user's business"""
    return base + choices[zlib.crc32(("zname" + str(key)).encode()) % len(choices)]


def eol_for(key):
    """input files end with a newline in two cases of three; in the third the last record is not newline-terminated
    (valid, and what some pipelines produce) - chosen by a stable hash of the case id"""
    return "" if zlib.crc32(str(key).encode()) % 3 == 0 else "\n"


def join_lines(lines, key):
    """the text of an input file: LF-terminated lines (2 of 4 cases), LF without a terminator after the last record
    (1 of 4), or Windows line ends throughout (1 of 4) - chosen by a stable hash of the case id"""
    if not lines:
        return ""       # a file without records is an empty file
    h = zlib.crc32(("j" + str(key)).encode()) % 4
    if h == 0:
        return "\n".join(lines)
    if h == 1:
        return "\r\n".join(lines) + "\r\n"
    return "\n".join(lines) + "\n"


def align_starts(lines, boundaries, pad=600):
    """Give every line a trailing padding field (zp:Z:ppp...) and shorten paddings so that, for each boundary, some
    record starts EXACTLY at that uncompressed byte offset (LF-separated). Readers that work in chunks of 64 KiB,
    1 MiB, ... have their seams there."""
    lines = [l + "\tzp:Z:" + "p" * pad for l in lines]
    for bnd in sorted(boundaries):
        off = 0
        for j, l in enumerate(lines):
            if off >= bnd and j > 0:
                diff = off - bnd
                k = j - 1
                while diff > 0 and k >= 0:
                    avail = len(lines[k]) - len(lines[k].rstrip("p")) - 1
                    take = min(avail, diff) if avail > 0 else 0
                    if take:
                        lines[k] = lines[k][: len(lines[k]) - take]
                        diff -= take
                    k -= 1
                break
            off += len(l.encode()) + 1
    return lines


def starts_of(lines):
    off, out = 0, set()
    for l in lines:
        out.add(off)
        off += len(l.encode()) + 1
    return out


def read_text(path):
    with open(path, "rb") as f:
        magic = f.read(2)
    if magic == b"\x1f\x8b":
        with gzip.open(path, "rt", encoding="utf-8", errors="replace") as f:
            return f.read()
    with open(path, encoding="utf-8", errors="replace") as f:
        return f.read()


# --------------------------------------------------------------------------- GAF / GFA splitting


def lines_of(text):
    """records of a text file: separated by LF (an optional CR in front of it belongs to the terminator) and by nothing else -
    unlike str.splitlines(), which also cuts at VT, FF, FS, GS, RS, NEL, U+2028 and U+2029"""
    ls = text.split("\n")
    if ls and ls[-1] == "":
        ls.pop()
    return [l[:-1] if l.endswith("\r") else l for l in ls]


def split_gaf_line(line):
    f = line.rstrip("\n").split("\t")
    return f[:12], f[12:]


def split_tag(field):
    """'NM:i:-5' -> ['NM','i','-5'] (split on the first two colons only)"""
    p = field.split(":", 2)
    return p if len(p) == 3 else [field, "", ""]


def parse_path(p):
    """GAF path string -> list of steps: {k:node,o,id} | {k:iv,o,ctg,a,b} | {k:ctg,ctg}"""
    if not re.search("[<>]", p):
        return [{"k": "ctg", "ctg": p}]
    out = []
    for o, body in re.findall(r"([<>])([^<>]+)", p):
        m = re.fullmatch(r"(.+):(\d+)-(\d+)", body)
        if m:
            out.append({"k": "iv", "o": o, "ctg": m.group(1), "a": int(m.group(2)), "b": int(m.group(3))})
        else:
            out.append({"k": "node", "o": o, "id": body})
    return out


def parse_cigar(cg):
    return [[int(a), b] for a, b in re.findall(r"(\d+)([=XIDMNSHP])", cg)]


def gaf_record(line):
    """Structured but uninterpreted view of a GAF line."""
    cols, opt = split_gaf_line(line)
    cg = [t for t in opt if t.startswith("cg:Z:")]
    rec = {
        "cols": cols,
        "opt": [split_tag(t) for t in opt],
        "name": cols[0],
        "strand": cols[4],
        "path": parse_path(cols[5]),
        "plen": int(cols[6]),
        "ps": int(cols[7]),
        "pe": int(cols[8]),
        "cigar": parse_cigar(cg[0][5:]) if cg else [],
    }
    return rec


def split_gfa(text):
    """-> (segs, links, other) ; segs: [[id, seq, [tags...]]], links: [[a,ao,b,bo,ov,[tags]]],
    in file order, with line numbers"""
    segs, links, other = [], [], []
    for ln, line in enumerate(lines_of(text)):
        f = line.split("\t")
        if f[0] == "S":
            segs.append({"ln": ln, "id": f[1], "seq": f[2], "tags": [split_tag(t) for t in f[3:]]})
        elif f[0] == "L":
            links.append(
                {"ln": ln, "a": f[1], "ao": f[2], "b": f[3], "bo": f[4], "ov": f[5], "tags": f[6:]}
            )
        elif line.strip():
            other.append({"ln": ln, "line": line})
    return segs, links, other


# --------------------------------------------------------------------------- running gaftools


SALT = None
CASE = None      # id of the case being run (set by the harness): makes the choice of invocation variant differ from case to case


class Timeout(Exception):
    pass


@contextmanager
def alarm(seconds):
    def h(sig, frm):
        raise Timeout()

    old = signal.signal(signal.SIGALRM, h)
    signal.setitimer(signal.ITIMER_REAL, seconds)
    try:
        yield
    finally:
        signal.setitimer(signal.ITIMER_REAL, 0)
        signal.signal(signal.SIGALRM, old)


class _Capture(io.StringIO):
    """a stdout/stderr stand-in that survives close() (gaftools sort closes the writer it was given)"""

    was_closed = False

    def close(self):
        self.was_closed = True      # remembered: only `sort` closes the stream it writes to (it always did)


def run_cli(argv, timeout=20, cwd_rel=None):
    """Run `gaftools <argv>` in-process. Returns dict(status, code, exc, stdout).
    status: 'ok' | 'exit' (SystemExit with non-zero code) | 'exception' | 'timeout'"""
    from gaftools.__main__ import main

    # one call in four that names an output file with -o is made WITHOUT it instead (the documented default is standard
    # output) and the captured text is put into the file afterwards: both ways of asking for the output are exercised
    # by every check, chosen by a stable hash of the command line (directory names, which are random, left out)
    argv = list(argv)
    to_file = None
    plain = os.environ.get("VERIF_PLAIN_CLI") == "1"      # X05 studies the request itself: no variants
    if not plain and argv and argv[0] in ("view", "stat", "phase", "find_path", "realign") and argv.count("-o") == 1:
        # SALT: set by a check that compares several runs of one command with each other (C17), so that all of them
        # are made in the same form
        key = (SALT + " " + " ".join(a for a in argv if a.startswith("-") or a == argv[0])) if SALT is not None else (CASE or "") + " ".join(os.path.basename(a) for a in argv)
        if zlib.crc32(key.encode()) % 4 == 0:
            k = argv.index("-o")
            to_file = argv[k + 1]
            del argv[k : k + 2]

    # one call in four that names an output file finds a file of an earlier run at that place (to be replaced, not
    # appended to or trusted)
    for flag in ("-o", "--outgaf", "--outind"):
        if not plain and argv and argv[0] in ("view", "stat", "phase", "find_path", "realign", "sort", "index") and argv.count(flag) == 1:
            target = argv[argv.index(flag) + 1]
            key = (SALT or CASE or "") + flag + " ".join(os.path.basename(a) for a in argv)
            if zlib.crc32(key.encode()) % 4 == 1 and os.path.isdir(os.path.dirname(target) or ".") and not os.path.exists(target):
                if flag == "--outind" or argv[0] == "index":
                    with open(target, "wb") as f:
                        pickle.dump({"stale_contig": [0, 0]}, f)
                elif argv[0] == "stat":
                    with open(target, "w") as f:      # the report of an earlier run on another file
                        f.write("Total alignments: 999\n\tPrimary: 990\n\tSecondary: 9\nReads with at least one alignment: 990\nTotal aligned bases: 12345\n"
                                "Average mapping quality: 1.0\nAverage highest sequence identity: 0.5\nAverage highest map ratio: 0.5\n"
                                "Cigar string statistics:\n\tTotal deletion regions: 77 (7 >50bps)\n\tTotal insertion regions: 77 (7 >50bps)\n"
                                "\tTotal substitution regions: 77 (7 >50bps)\n\tTotal match regions: 77 (7 >50bps)\nTotal perfect alignments (exact match): 7\n"
                                "* Numbers are based on primary alignments and the ones with >0 mapping quality\n")
                else:
                    with open(target, "w") as f:      # (longer than most outputs: a file that is not truncated keeps its old tail)
                        f.write("stale_read\t10\t0\t10\t+\t>stale\t10\t0\t10\t10\t10\t60\n" * (3 if zlib.crc32(key.encode()) % 2 else 4000))
                    if flag == "--outgaf" and "--outind" not in argv:
                        with open(target + ".gsi", "wb") as f:
                            pickle.dump({"stale_contig": [0, 0]}, f)

    # `gaftools index GAF GFA` without -o writes GAF.gvi: one such call in four finds an index of an earlier run there
    if not plain and argv and argv[0] == "index" and "-o" not in argv and len(argv) >= 3:
        target = argv[1] + ".gvi"
        key = (SALT or CASE or "") + "gvi" + " ".join(os.path.basename(a) for a in argv)
        if zlib.crc32(key.encode()) % 4 == 1 and not os.path.exists(target) and os.path.isdir(os.path.dirname(target) or "."):
            with open(target, "wb") as f:
                pickle.dump({"stale_contig": [0, 0]}, f)

    # one call in three is made from inside the data directory with bare relative file names (when all files named on
    # the command line live under the directory of the first one)
    restore_cwd = None
    paths = [a for a in argv[1:] if os.path.isabs(a)]
    if paths:
        base = os.path.dirname(paths[0])
        key = (SALT or CASE or "") + "cwd" + " ".join(os.path.basename(a) for a in argv)
        if all(a.startswith(base + os.sep) for a in paths) and (cwd_rel if cwd_rel is not None else zlib.crc32(key.encode()) % 3 == 2):
            restore_cwd = os.getcwd()
            argv = [os.path.relpath(a, base) if os.path.isabs(a) else a for a in argv]
            os.chdir(base)

    # one call in five is made as `gaftools --debug <command> ...` with logging switched on (the harness silences logging
    # otherwise): log and debug messages belong to standard error, whatever their level and wherever the output goes
    key = (SALT or CASE or "") + "debug" + " ".join(os.path.basename(a) for a in argv)
    debug = not plain and zlib.crc32(key.encode()) % 5 == 3
    saved_disable = logging.root.manager.disable
    saved_level = logging.getLogger().level
    if debug:
        argv = ["--debug"] + list(argv)
    loud = debug or to_file is not None      # ... and whenever the records are read from standard output: messages do not belong there
    if loud:
        logging.disable(logging.NOTSET)
    root = logging.getLogger()
    saved_handlers = root.handlers[:]
    old_out, old_err = sys.stdout, sys.stderr
    sys.stdout = _Capture()
    sys.stderr = _Capture()
    res = {"status": "ok", "code": 0, "exc": "", "stdout": ""}
    try:
        with alarm(timeout):
            main(list(argv))
    except SystemExit as e:
        code = e.code if isinstance(e.code, int) else (0 if e.code is None else 1)
        res["code"] = code
        res["status"] = "ok" if code == 0 else "exit"
    except Timeout:
        res["status"] = "timeout"
    except BaseException as e:  # noqa
        res["status"] = "exception"
        res["exc"] = f"{type(e).__name__}: {e}"[:300]
    finally:
        res["stdout"] = sys.stdout.getvalue()
        res["stderr"] = sys.stderr.getvalue()[-2000:]
        if getattr(sys.stdout, "was_closed", False) and res["status"] == "ok" and not any(a == "sort" for a in argv[:2]):
            # the command closed the process's standard output: the next call made in this process (a library user, a test, a
            # notebook) cannot write its records any more
            res["status"] = "exception"
            res["exc"] = "ValueError: the command closed sys.stdout - a second call in the same process fails with 'I/O operation on closed file'"
        if to_file is not None:
            with open(to_file, "w", encoding="utf-8") as f:
                f.write(res["stdout"])
        sys.stdout, sys.stderr = old_out, old_err
        if restore_cwd is not None:
            os.chdir(restore_cwd)
        for h in root.handlers[:]:
            if h not in saved_handlers:
                root.removeHandler(h)
        if loud:
            logging.disable(saved_disable)
            root.setLevel(saved_level)
    return res


def load_pickle(path):
    with open(path, "rb") as f:
        return pickle.load(f)
