"""Behaviours from TLC's labelled state graph (-dump dot,actionlabels).

transition_tour: a set of behaviours (paths from the initial state, each continued to a terminal
state where one is reachable) that together traverse every edge of the graph at least once.
random_walks: seeded random behaviours to a terminal state.
"""

import random
from collections import defaultdict, deque


class Graph:
    def __init__(self, nodes, edges, init):
        self.nodes = nodes
        self.init = sorted(init)
        self.out = defaultdict(list)  # src -> [(label, dst)]
        seen = set()
        for a, b, l in edges:
            if (a, b, l) in seen:
                continue
            seen.add((a, b, l))
            self.out[a].append((l, b))
        for a in self.out:
            self.out[a].sort()
        self.nedges = len(seen)
        self._to_term = None

    def terminal(self, n):
        return not self.out.get(n)

    def dist_to_terminal(self):
        """next hop towards the nearest terminal state (reverse BFS)"""
        if self._to_term is not None:
            return self._to_term
        rev = defaultdict(list)
        for a, outs in self.out.items():
            for l, b in outs:
                rev[b].append((a, l))
        hop = {}
        dq = deque()
        for n in self.nodes:
            if self.terminal(n):
                hop[n] = None
                dq.append(n)
        while dq:
            b = dq.popleft()
            for a, l in rev[b]:
                if a not in hop:
                    hop[a] = (l, b)
                    dq.append(a)
        self._to_term = hop
        return hop

    def finish(self, path, cur, limit=10000):
        """extend path from cur to a terminal state if one is reachable"""
        hop = self.dist_to_terminal()
        n = 0
        while cur in hop and hop[cur] is not None and n < limit:
            l, b = hop[cur]
            path.append((l, b))
            cur = b
            n += 1
        return path


def transition_tour(g, max_len=400):
    """Greedy edge cover. Returns list of behaviours; a behaviour is [(label, dst_state_id)]."""
    unvisited = {(a, l, b) for a, outs in g.out.items() for l, b in outs}
    behaviours = []
    init = g.init[0]
    while unvisited:
        path = []
        cur = init
        progressed = False
        while len(path) < max_len:
            nxt = None
            for l, b in g.out.get(cur, []):
                if (cur, l, b) in unvisited:
                    nxt = (l, b)
                    break
            if nxt is None:
                # BFS to the nearest state with an unvisited out-edge
                prev = {cur: None}
                dq = deque([cur])
                target = None
                while dq:
                    x = dq.popleft()
                    if any((x, l, b) in unvisited for l, b in g.out.get(x, [])):
                        target = x
                        break
                    for l, b in g.out.get(x, []):
                        if b not in prev:
                            prev[b] = (x, l)
                            dq.append(b)
                if target is None or target == cur:
                    break
                seg = []
                x = target
                while prev[x] is not None:
                    px, l = prev[x]
                    seg.append((l, x))
                    x = px
                seg.reverse()
                if len(path) + len(seg) >= max_len:
                    break
                path += seg
                cur = target
                continue
            l, b = nxt
            unvisited.discard((cur, l, b))
            path.append((l, b))
            cur = b
            progressed = True
        if not progressed:
            # remaining edges unreachable within max_len from init along this greedy walk: direct BFS
            a, l, b = next(iter(unvisited))
            prev = {init: None}
            dq = deque([init])
            while dq:
                x = dq.popleft()
                if x == a:
                    break
                for ll, bb in g.out.get(x, []):
                    if bb not in prev:
                        prev[bb] = (x, ll)
                        dq.append(bb)
            if a not in prev:
                unvisited.discard((a, l, b))
                continue
            seg = []
            x = a
            while prev[x] is not None:
                px, ll = prev[x]
                seg.append((ll, x))
                x = px
            seg.reverse()
            path = seg + [(l, b)]
            for i, (ll, bb) in enumerate(path):
                src = init if i == 0 else path[i - 1][1]
                unvisited.discard((src, ll, bb))
            cur = b
        g.finish(path, cur)
        behaviours.append(path)
    return behaviours


def random_walks(g, n, seed, max_len=400, weight=None):
    rnd = random.Random(seed)
    out = []
    for _ in range(n):
        cur = g.init[0]
        path = []
        while not g.terminal(cur) and len(path) < max_len:
            outs = g.out[cur]
            if weight:
                ws = [weight(l) for l, _ in outs]
                l, b = rnd.choices(outs, weights=ws)[0]
            else:
                l, b = rnd.choice(outs)
            path.append((l, b))
            cur = b
        g.finish(path, cur)
        out.append(path)
    return out
