import argparse
import importlib
import os
import sys
import traceback

sys.path.insert(0, os.path.dirname(os.path.abspath(__file__)))
import engine  # noqa: E402


def main():
    ap = argparse.ArgumentParser()
    ap.add_argument("prop")
    ap.add_argument("--tier", default=os.environ.get("VERIF_TIER", "quick"), choices=["quick", "thorough"])
    ap.add_argument("--replay", default=None)
    a = ap.parse_args()
    seed = int(os.environ.get("VERIF_SEED", "1"))
    os.environ.setdefault("PYTHONHASHSEED", "0")
    os.environ["GAFTOOLS_VERIF"] = "1"
    sys.path.insert(0, engine.REPO)
    import logging

    logging.disable(logging.CRITICAL)
    mod = importlib.import_module("props." + a.prop.lower())
    replay_clause = None
    if a.replay:
        # a replay file names the failing clause and the tier/seed of the run that found it; the
        # check is re-executed with them and reports a violation iff that clause fails again
        import json

        blob = json.load(open(a.replay))
        a.tier, seed, replay_clause = blob.get("tier", a.tier), blob.get("seed", seed), blob["clause"]
    ctx = engine.Ctx(a.prop.upper(), a.tier, seed, a.replay)
    ctx.replay_clause = replay_clause
    try:
        mod.run(ctx)
        rc = ctx.finish()
    except engine.MachineryError as e:
        print(f"MACHINERY-FAILURE property={a.prop}: {e}", file=sys.stderr)
        rc = 2
    except Exception:
        traceback.print_exc()
        print(f"MACHINERY-FAILURE property={a.prop}", file=sys.stderr)
        rc = 2
    sys.exit(rc)


if __name__ == "__main__":
    main()
