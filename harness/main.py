import argparse
import importlib
import os
import sys
import traceback

sys.path.insert(0, os.path.dirname(os.path.abspath(__file__)))
import engine  # noqa: E402


def main():
    ap = argparse.ArgumentParser()
    ap.add_argument("prop")
    ap.add_argument("--tier", default=os.environ.get("VERIF_TIER", "quick"), choices=["quick", "thorough"])
    ap.add_argument("--replay", default=None)
    a = ap.parse_args()
    seed = int(os.environ.get("VERIF_SEED", "1"))
    os.environ.setdefault("PYTHONHASHSEED", "0")
    os.environ["GAFTOOLS_VERIF"] = "1"
    sys.path.insert(0, engine.REPO)
    import logging

    logging.disable(logging.CRITICAL)
    mod = importlib.import_module("props." + a.prop.lower())
    replay_clause = None
    if a.replay:
        # a replay file names the failing clause and the tier/seed of the run that found it; the
        # check is re-executed with them and reports a violation iff that clause fails again
        import json

        blob = json.load(open(a.replay))
        a.tier, seed, replay_clause = blob.get("tier", a.tier), blob.get("seed", seed), blob["clause"]
    ctx = engine.Ctx(a.prop.upper(), a.tier, seed, a.replay)
    ctx.replay_clause = replay_clause
    try:
        mod.run(ctx)
        rc = ctx.finish()
    except engine.JobFailed as e:
        if e.info["from_library"]:
            # an exception that came out of gaftools itself (a library call the check makes on a valid input): that is what
            # the implementation did, and it is a violation - the property demands an answer on that input
            ctx.violation("raised_inside_gaftools:" + e.info["exc"].split(":")[0], {"exception": e.info["exc"], "where": e.info["where"], "job": e.info["job"]})
            rc = ctx.finish()
        else:
            print(f"MACHINERY-FAILURE property={a.prop}: job failed: {e.info['exc']} at {e.info['where']}", file=sys.stderr)
            rc = 2
    except engine.MachineryError as e:
        print(f"MACHINERY-FAILURE property={a.prop}: {e}", file=sys.stderr)
        rc = 2
    except Exception as e:
        frames = traceback.extract_tb(e.__traceback__)
        lib = os.path.join(engine.REPO, "gaftools") + os.sep
        if any(os.path.abspath(f.filename).startswith(lib) for f in frames) and not isinstance(e, AssertionError.__mro__[0]) or \
                (isinstance(e, AssertionError) and any(os.path.abspath(f.filename).startswith(lib) for f in frames[-1:])):
            ctx.violation("raised_inside_gaftools:" + type(e).__name__, {"exception": f"{type(e).__name__}: {e}"[:200],
                                                                          "where": [f"{os.path.basename(f.filename)}:{f.lineno}:{f.name}" for f in frames][-6:]})
            rc = ctx.finish()
        else:
            traceback.print_exc()
            print(f"MACHINERY-FAILURE property={a.prop}", file=sys.stderr)
            rc = 2
    sys.exit(rc)


if __name__ == "__main__":
    main()
