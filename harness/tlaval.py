"""Parser for TLA+ values as printed by TLC (-dump files, DOT labels, PrintT output).

Records -> dict, tuples/sequences -> list, sets -> TlaSet (a list subclass, order as printed),
functions (a :> b @@ c :> d) -> dict, strings -> str, ints -> int, booleans -> bool,
model values / identifiers -> str.
"""


class TlaSet(list):
    pass


class ParseError(Exception):
    pass


class _P:
    def __init__(self, s):
        self.s = s
        self.i = 0
        self.n = len(s)

    def ws(self):
        s, n = self.s, self.n
        while self.i < n and s[self.i] in " \t\r\n":
            self.i += 1

    def peek(self, k=1):
        return self.s[self.i : self.i + k]

    def expect(self, tok):
        self.ws()
        if not self.s.startswith(tok, self.i):
            raise ParseError(f"expected {tok!r} at {self.i}: {self.s[self.i:self.i+40]!r}")
        self.i += len(tok)

    def value(self):
        self.ws()
        s = self.s
        c = self.peek()
        if c == '"':
            return self.string()
        if self.peek(2) == "<<":
            self.i += 2
            return self.items(">>", list)
        if c == "{":
            self.i += 1
            return self.items("}", TlaSet)
        if c == "[":
            self.i += 1
            return self.record()
        if c == "(":
            self.i += 1
            return self.function()
        if c == "-" or c.isdigit():
            j = self.i + 1
            while j < self.n and s[j].isdigit():
                j += 1
            v = int(s[self.i : j])
            self.i = j
            self.ws()
            if self.peek(2) == "..":
                self.i += 2
                hi = self.value()
                return TlaSet(range(v, hi + 1))
            return v
        if c.isalpha() or c == "_":
            j = self.i
            while j < self.n and (s[j].isalnum() or s[j] == "_"):
                j += 1
            w = s[self.i : j]
            self.i = j
            if w == "TRUE":
                return True
            if w == "FALSE":
                return False
            return w
        raise ParseError(f"unexpected {c!r} at {self.i}: {s[self.i:self.i+40]!r}")

    def string(self):
        s = self.s
        assert s[self.i] == '"'
        j = self.i + 1
        out = []
        while True:
            ch = s[j]
            if ch == "\\":
                nx = s[j + 1]
                out.append({"n": "\n", "t": "\t", "r": "\r", "f": "\f"}.get(nx, nx))
                j += 2
            elif ch == '"':
                break
            else:
                out.append(ch)
                j += 1
        self.i = j + 1
        return "".join(out)

    def items(self, close, ctor):
        out = ctor()
        self.ws()
        if self.s.startswith(close, self.i):
            self.i += len(close)
            return out
        while True:
            out.append(self.value())
            self.ws()
            if self.s.startswith(close, self.i):
                self.i += len(close)
                return out
            self.expect(",")

    def record(self):
        out = {}
        self.ws()
        if self.peek() == "]":
            self.i += 1
            return out
        while True:
            self.ws()
            j = self.i
            while j < self.n and (self.s[j].isalnum() or self.s[j] == "_"):
                j += 1
            key = self.s[self.i : j]
            self.i = j
            self.expect("|->")
            out[key] = self.value()
            self.ws()
            if self.peek() == "]":
                self.i += 1
                return out
            self.expect(",")

    def function(self):
        out = {}
        while True:
            k = self.value()
            self.expect(":>")
            v = self.value()
            out[k if not isinstance(k, list) else tuple(k)] = v
            self.ws()
            if self.peek() == ")":
                self.i += 1
                return out
            self.expect("@@")


def parse(text):
    p = _P(text)
    v = p.value()
    p.ws()
    if p.i != p.n:
        raise ParseError(f"trailing input at {p.i}: {text[p.i:p.i+40]!r}")
    return v


def parse_state(text):
    """text: '/\\ a = ...\n/\\ b = ...' -> {a: val, b: val}"""
    out = {}
    cur = None
    import re as _re

    if not text.startswith("/\\ ") and _re.match(r"^\w+ = ", text):      # a specification with one variable: no conjunction list
        text = "/\\ " + text
    for line in text.split("\n"):
        if line.startswith("/\\ "):
            if cur is not None:
                out[cur[0]] = parse(cur[1])
            name, _, rest = line[3:].partition(" = ")
            cur = [name.strip(), rest]
        elif cur is not None and line.strip():
            cur[1] += "\n" + line
    if cur is not None:
        out[cur[0]] = parse(cur[1])
    return out


def read_dump(path):
    """yield state dicts from a TLC '-dump <file>' file"""
    block = []
    with open(path) as f:
        for line in f:
            if line.startswith("State "):
                block = []
            elif not line.strip():
                if block:
                    yield parse_state("\n".join(block))
                    block = []
            else:
                block.append(line.rstrip("\n"))
    if block:
        yield parse_state("\n".join(block))


def _unescape_dot(s):
    out = []
    i = 0
    while i < len(s):
        if s[i] == "\\" and i + 1 < len(s):
            nx = s[i + 1]
            out.append("\n" if nx == "n" else nx)
            i += 2
        else:
            out.append(s[i])
            i += 1
    return "".join(out)


def _dot_label(line, start):
    """extract the quoted label beginning at line[start] == '"'; returns (raw, end)"""
    j = start + 1
    while True:
        ch = line[j]
        if ch == "\\":
            j += 2
        elif ch == '"':
            break
        else:
            j += 1
    return line[start + 1 : j], j + 1


def read_dot(path, parse_states=True):
    """Return (nodes, edges, init) from '-dump dot,actionlabels'.
    nodes: id -> state dict (or raw text); edges: list of (src, dst, label); init: set of ids"""
    nodes, edges, init = {}, [], set()
    with open(path) as f:
        for line in f:
            if not line or not (line[0].isdigit() or line[0] == "-"):
                continue
            head, _, _ = line.partition(" [label=")
            k = line.find('[label="')
            if k < 0:
                continue
            raw, end = _dot_label(line, k + 7)
            if " -> " in head:
                a, b = head.split(" -> ")
                edges.append((a.strip(), b.strip(), _unescape_dot(raw)))
            else:
                txt = _unescape_dot(raw)
                nodes[head.strip()] = parse_state(txt) if parse_states else txt
                if "style = filled" in line[end:]:
                    init.add(head.strip())
    return nodes, edges, init


def parse_action_label(label):
    """'WPut(1)' -> ('WPut', [1]);  'PStart' -> ('PStart', [])"""
    k = label.find("(")
    if k < 0:
        return label, []
    name = label[:k]
    inner = label[k + 1 : label.rindex(")")]
    args = parse("<<" + inner + ">>") if inner.strip() else []
    return name, args
