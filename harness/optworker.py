"""Runs a few jobs of a check in an interpreter started with -O (assert statements are not compiled) and another
hash seed: gaftools must not depend on either. stdin: pickle (module, function, jobs); stdout: pickle of the results."""
import importlib
import logging
import os
import pickle
import sys

here = os.path.dirname(os.path.abspath(__file__))
sys.path.insert(0, here)
import engine  # noqa: E402

sys.path.insert(0, engine.REPO)
logging.disable(logging.CRITICAL)
mod, fn, jobs = pickle.load(sys.stdin.buffer)
f = engine._Guarded(getattr(importlib.import_module(mod), fn))
if len(jobs) > 8:
    import multiprocessing as mp
    from concurrent.futures import ProcessPoolExecutor

    with ProcessPoolExecutor(max_workers=4, mp_context=mp.get_context("fork")) as ex:
        out = list(ex.map(f, jobs, chunksize=2))
else:
    out = [f(j) for j in jobs]
sys.stdout.buffer.write(b"\n==RESULT==\n" + pickle.dumps(out))
