"""Common machinery: TLC runner, batch validation by TLC, evidence, known findings, verdicts.

Exit codes of a check: 0 = property held on everything explored (known findings are printed),
1 = violation (VIOLATION line printed), 2 = machinery failure (never mistaken for a finding).
"""

import hashlib
import json
import os
import re
import shutil
import subprocess
import sys
import tempfile
import time
from concurrent.futures import ThreadPoolExecutor

VERIF = os.path.dirname(os.path.dirname(os.path.abspath(__file__)))
SPEC = os.path.join(VERIF, "spec")
REPO = os.environ.get("VERIF_REPO", "/repo")
# where evidence/ and replays/ are written (only the seed-regression tool overrides it, to run several trees in parallel)
OUT = os.environ.get("VERIF_OUT", VERIF)
TLA_JAR = "/opt/veriftools/tla/tla2tools.jar:/opt/veriftools/tla/CommunityModules-deps.jar"
NCPU = os.cpu_count() or 4


class MachineryError(Exception):
    pass


# --------------------------------------------------------------------------- TLC


class TlcResult:
    def __init__(self):
        self.rc = None
        self.out = ""
        self.generated = 0
        self.distinct = 0
        self.depth = 0
        self.violated = None  # name of violated invariant / "temporal" / "deadlock"
        self.coverage = {}  # action name -> (distinct, total)
        self.wall = 0.0
        self.printed = []  # raw PrintT lines (tuples starting with <<)

    @property
    def ok(self):
        return self.rc == 0 and self.violated is None


_STATS = re.compile(r"(\d+) states generated, (\d+) distinct states found")
_DEPTH = re.compile(r"The depth of the complete state graph search is (\d+)")
_INV = re.compile(r"Error: Invariant (\S+) is violated")
_APROP = re.compile(r"Error: Action property (\S+) is violated")
_COV = re.compile(r"^<(\w+) line \d+, col \d+ to line \d+, col \d+ of module (\w+)>: (\d+):(\d+)")


def run_tlc(
    module,
    cfg,
    scratch,
    workers=None,
    env=None,
    extra=(),
    timeout=600,
    coverage=False,
    simulate=None,
    deque=False,
    heap="6g",
):
    """Run TLC on spec/<module>.tla with spec/<cfg>. Returns TlcResult. Raises MachineryError on
    parse errors / crashes / timeouts (anything that is not 'ok' or a property violation)."""
    workers = workers or NCPU
    meta = tempfile.mkdtemp(prefix="tlcmeta_", dir=scratch)
    java = ["java", "-XX:+UseParallelGC", "-Xmx" + heap, "-Xss64m"]
    if deque:
        java.append("-Dtlc2.tool.queue.IStateQueue=StateDeque")
    cmd = java + [
        "-cp",
        TLA_JAR,
        "tlc2.TLC",
        "-workers",
        str(workers),
        "-metadir",
        meta,
        "-noGenerateSpecTE",
        "-config",
        cfg,
    ]
    if coverage:
        cmd += ["-coverage", "1"]
    if simulate:
        cmd += ["-simulate", simulate]
    cmd += list(extra) + [module + ".tla" if not module.endswith(".tla") else module]
    e = dict(os.environ)
    if env:
        e.update({k: str(v) for k, v in env.items()})
    t0 = time.time()
    try:
        p = subprocess.run(
            cmd, cwd=SPEC, env=e, capture_output=True, text=True, timeout=timeout, errors="replace"
        )
    except subprocess.TimeoutExpired:
        subprocess.run(["pkill", "-f", meta], check=False)
        raise MachineryError(f"TLC timed out after {timeout}s on {module}/{cfg}")
    finally:
        shutil.rmtree(meta, ignore_errors=True)
    r = TlcResult()
    r.wall = time.time() - t0
    r.rc = p.returncode
    r.out = p.stdout + p.stderr
    pending = None
    for line in p.stdout.splitlines():
        m = _STATS.search(line)
        if m:
            r.generated, r.distinct = int(m.group(1)), int(m.group(2))
        m = _DEPTH.search(line)
        if m:
            r.depth = int(m.group(1))
        m = _INV.search(line) or _APROP.search(line)
        if m:
            r.violated = m.group(1)
        if "Temporal properties were violated" in line:
            r.violated = "temporal"
        if "Error: Deadlock reached" in line:
            r.violated = "deadlock"
        m = _COV.match(line)
        if m:
            r.coverage[m.group(1)] = (int(m.group(3)), int(m.group(4)))
        if pending is not None:
            pending += " " + line.strip()
            if line.rstrip().endswith(">>"):
                r.printed.append(pending)
                pending = None
        elif line.startswith("<<"):
            if line.rstrip().endswith(">>"):
                r.printed.append(line)
            else:
                pending = line.rstrip()
    if r.rc not in (0, 10, 11, 12, 13) or (r.rc != 0 and r.violated is None):
        # simulation mode is stopped by timeout/num; rc 0. Anything else is machinery trouble.
        lines = r.out.splitlines()
        errs = []
        for k, l in enumerate(lines):
            if l.startswith("Error:") or "Exception" in l:
                errs += lines[k : k + 6]
        raise MachineryError(
            f"TLC failed rc={r.rc} on {module}/{cfg}:\n" + "\n".join(errs[:40] or lines[-30:])
        )
    return r


def extract_trace(out):
    """Counterexample states from TLC stdout as list of (label, text)."""
    tr = []
    cur = None
    for line in out.splitlines():
        m = re.match(r"^State (\d+): (.*)$", line)
        if m:
            cur = [m.group(2), []]
            tr.append(cur)
        elif cur is not None:
            if line.startswith("/\\") or line.startswith("  ") or (line and line[0] in " \t"):
                cur[1].append(line)
            elif not line.strip():
                cur = None
    return [(a, "\n".join(b)) for a, b in tr]


# --------------------------------------------------------------------------- batch validation

_VERD = re.compile(r'^<<\s*"VERDICT",\s*(.*?)\s*>>$')


def _clean(x):
    """JSON values the TLA+ Json module cannot read (null, floats) become strings"""
    if x is None:
        return "null"
    if isinstance(x, float):
        return repr(x)
    if isinstance(x, dict):
        return {str(k): _clean(v) for k, v in x.items()}
    if isinstance(x, (list, tuple)):
        return [_clean(v) for v in x]
    return x


def _validate_shard(module, cfg, cases, scratch, idx, timeout, env=None):
    path = os.path.join(scratch, f"cases_{module}_{idx}_{os.getpid()}_{time.time_ns()}.ndjson")
    with open(path, "w") as f:
        for c in cases:
            f.write(json.dumps(_clean(c), separators=(",", ":")) + "\n")
    try:
        r = run_tlc(module, cfg, scratch, workers=1, env=dict(env or {}, CASES=path), timeout=timeout, heap="3g")
    finally:
        os.unlink(path)
    from tlaval import parse

    verdicts = {}
    for line in r.printed:
        m = _VERD.match(line)
        if not m:
            continue
        v = parse("<<" + m.group(1) + ">>")
        verdicts[v[0]] = v[1]
    if not r.ok:
        raise MachineryError(f"validator {module} did not complete: {r.violated}\n{r.out[-3000:]}")
    return verdicts, r


def validate(module, cases, scratch, cfg=None, shards=None, timeout=900, env=None):
    """Hand implementation results to TLC. Every case must have a unique 'id'. Returns
    {id: clause} with a verdict for every case (total), plus summed TLC stats."""
    cfg = cfg or "Check.cfg"
    if not cases:
        return {}, {"states": 0, "wall": 0.0}
    ids = [c["id"] for c in cases]
    if len(set(ids)) != len(ids):
        raise MachineryError("duplicate case ids")
    if shards is None:
        shards = max(1, min(NCPU, len(cases) // 400))
    chunks = [cases[i::shards] for i in range(shards)]
    verdicts = {}
    states = 0
    t0 = time.time()
    with ThreadPoolExecutor(max_workers=shards) as ex:
        futs = [
            ex.submit(_validate_shard, module, cfg, ch, scratch, i, timeout, env)
            for i, ch in enumerate(chunks)
            if ch
        ]
        for fu in futs:
            v, r = fu.result()
            verdicts.update(v)
            states += r.distinct
    missing = [i for i in ids if i not in verdicts]
    if missing:
        raise MachineryError(
            f"validator {module}: {len(missing)} cases without verdict, e.g. {missing[:3]}"
        )
    return verdicts, {"states": states, "wall": time.time() - t0}


# --------------------------------------------------------------------------- known findings


def load_known():
    p = os.path.join(VERIF, "known_findings.json")
    if not os.path.exists(p):
        return []
    with open(p) as f:
        return json.load(f)["findings"]


def classify(prop, clause, known):
    """Return the matching *known* (not fixed) finding entry, or None."""
    for k in known:
        if k.get("property") != prop or k.get("status") != "known":
            continue
        if re.fullmatch(k["clause"], clause):
            return k
    return None


# --------------------------------------------------------------------------- context / evidence


class Ctx:
    def __init__(self, prop, tier, seed, replay=None):
        self.prop = prop
        self.tier = tier
        self.seed = seed
        self.replay = replay
        self.replay_clause = None
        self.t0 = time.time()
        self.scratch = tempfile.mkdtemp(prefix=f"verif_{prop}_")
        if replay is None:
            shutil.rmtree(os.path.join(OUT, "replays", prop), ignore_errors=True)
        self.states = 0
        self.transitions = 0
        self.evaluations = 0
        self.validated = 0
        self.nontrivial = set()
        self.samples = []
        self.violations = []  # (clause, case)
        self.known_hits = {}
        self.notes = {}
        self.assumptions = []
        self.exhaustive = False
        self.rule = ""
        self.tlc_runs = []
        self.uncovered = []

    @property
    def thorough(self):
        return self.tier == "thorough"

    def tlc(self, module, cfg, design=True, **kw):
        r = run_tlc(module, cfg, self.scratch, **kw)
        self.states += r.distinct
        self.transitions += r.generated
        self.tlc_runs.append(
            {
                "module": module,
                "cfg": cfg,
                "distinct": r.distinct,
                "generated": r.generated,
                "depth": r.depth,
                "wall_s": round(r.wall, 2),
                "violated": r.violated,
            }
        )
        if r.coverage:
            never = sorted(a for a, (d, t) in r.coverage.items() if t == 0)
            if never:
                self.uncovered.append({"module": module, "cfg": cfg, "never_taken": never})
        return r

    def validate(self, module, cases, **kw):
        # generous in the thorough tier: the machine may be shared with other checks while it runs
        kw.setdefault("timeout", 3600 if self.thorough else 1200)
        verdicts, st = validate(module, cases, self.scratch, **kw)
        self.states += st["states"]
        self.transitions += st["states"]
        self.validated += len(cases)
        return verdicts

    def sample(self, obj, limit=4):
        if len(self.samples) < limit:
            self.samples.append(obj)

    def violation(self, clause, case):
        self.violations.append((clause, case))

    def record(self, verdict, case):
        """verdict from TLC: "ok", a clause, or a set of clauses (empty = ok)"""
        if isinstance(verdict, list):
            for v in verdict:
                if v != "ok":
                    self.violations.append((v, case))
        elif verdict != "ok":
            self.violations.append((verdict, case))

    def design_violation(self, module, cfg, r):
        """A TLC run on the spec alone found a counterexample: the design/oracle is inconsistent."""
        tr = extract_trace(r.out)
        self.violation(
            f"design:{module}:{r.violated}",
            {"module": module, "cfg": cfg, "trace": [a + "\n" + b for a, b in tr][-12:]},
        )

    def finish(self):
        known = load_known()
        wall = time.time() - self.t0
        real = []
        if self.replay_clause is not None:
            self.violations = [(c, k) for c, k in self.violations if c == self.replay_clause]
        for clause, case in self.violations:
            k = classify(self.prop, clause, known)
            if k is not None:
                self.known_hits.setdefault(k["id"], [k, 0])[1] += 1
            else:
                real.append((clause, case))
        ev = {
            "property_id": self.prop,
            "tier": self.tier,
            "seed": self.seed,
            "level": "model_checking",
            "coverage": {
                "states": max(self.states, 0),
                "transitions": max(self.transitions, 0),
                "traces_validated_against_impl": self.validated,
                "evaluations": self.evaluations,
                "distinct_nontrivial": len(self.nontrivial),
                "rule": self.rule,
                "samples": self.samples or [{"note": "no case executed"}],
                "exhaustive": self.exhaustive,
                "tlc_runs": self.tlc_runs,
                "actions_never_taken": self.uncovered,
                "known_findings_hit": {k: v[1] for k, v in self.known_hits.items()},
                **self.notes,
            },
            "assumptions": self.assumptions,
            "wall_s": round(wall, 2),
            "violations": len(real),
        }
        # X.. = growth of the specification beyond the listed properties: own evidence directory, and a deviation is
        # never printed as a VIOLATION of a property
        ext = self.prop.startswith("X")
        evdir = os.path.join(OUT, "evidence_ext" if ext else "evidence")
        os.makedirs(evdir, exist_ok=True)
        with open(os.path.join(evdir, f"{self.prop}.json"), "w") as f:
            json.dump(ev, f, indent=1, default=str)
            f.write("\n")
        for kid, (k, n) in self.known_hits.items():
            print(f"KNOWN-FINDING: property={self.prop} {k['description']} [{kid}; {n} case(s)]")
        rc = 0
        if real:
            rc = 1
            os.makedirs(os.path.join(OUT, "replays", self.prop), exist_ok=True)
            seen = set()
            for clause, case in real:
                # one replay file per distinct failing clause (the first case that showed it)
                blob = json.dumps({"property": self.prop, "clause": clause, "tier": self.tier, "seed": self.seed, "case": case}, default=str, sort_keys=True)
                h = hashlib.sha1(blob.encode()).hexdigest()[:12]
                key = clause
                if key in seen:
                    continue
                seen.add(key)
                path = os.path.join(OUT, "replays", self.prop, f"{h}.json")
                with open(path, "w") as f:
                    f.write(blob + "\n")
                head = f"EXT-DEVIATION ext={self.prop}" if ext else f"VIOLATION property={self.prop}"
                print(f"{head} replay={path}  clause={clause} ({sum(1 for c,_ in real if c==clause)} case(s))")
        print(
            f"[{self.prop}] tier={self.tier} seed={self.seed} states={self.states} "
            f"impl_cases_validated={self.validated} nontrivial={len(self.nontrivial)} "
            f"violations={len(real)} known={sum(v[1] for v in self.known_hits.values())} wall={wall:.1f}s"
        )
        shutil.rmtree(self.scratch, ignore_errors=True)
        return rc


# --------------------------------------------------------------------------- generators


def gen_states(ctx, module, cfg, coverage=True, timeout=900, dot=False):
    """Run TLC on a bounded model and return its reachable states (spec -> code direction).
    If the run violates a design property it is recorded as a violation of the check."""
    from tlaval import read_dump, read_dot

    base = os.path.join(ctx.scratch, f"dump_{module}_{os.path.basename(cfg)}".replace(".", "_"))
    extra = ["-dump", "dot,actionlabels", base + ".dot"] if dot else ["-dump", base]
    r = ctx.tlc(module, cfg, extra=extra, coverage=coverage, timeout=timeout)
    if not r.ok:
        ctx.design_violation(module, cfg, r)
    if dot:
        out = read_dot(base + ".dot")
        os.unlink(base + ".dot")
        return out, r
    states = list(read_dump(base + ".dump"))
    os.unlink(base + ".dump")
    return states, r


class JobFailed(Exception):
    """a job of a check ended in an exception; .from_library says whether it was raised inside gaftools (or below it, in a call
    gaftools made) - then it is what the implementation did on that input, not a failure of the machinery"""

    def __init__(self, info):
        Exception.__init__(self, info["exc"])
        self.info = info


class _Guarded:
    """picklable wrapper: the job's exception comes back as data instead of breaking the pool"""

    def __init__(self, fn):
        self.fn = fn
        self.__module__ = getattr(fn, "__module__", "")
        self.__name__ = getattr(fn, "__name__", "job")

    def __call__(self, x):
        try:
            return self.fn(x)
        except BaseException as e:  # noqa
            import traceback

            frames = traceback.extract_tb(e.__traceback__)
            lib = os.path.join(REPO, "gaftools") + os.sep
            return {"__job_failed__": True, "exc": f"{type(e).__name__}: {e}"[:160],
                    "from_library": any(os.path.abspath(f.filename).startswith(lib) for f in frames),
                    "where": [f"{os.path.basename(f.filename)}:{f.lineno}:{f.name}" for f in frames][-6:],
                    "job": repr(x)[:600]}


def _raise_job_failures(res):
    for r in res:
        if isinstance(r, dict) and r.get("__job_failed__"):
            raise JobFailed(r)
    return res


def pool_map(fn, items, procs=None, chunk=8):
    """Run fn over items in a fork pool (fn must be a module-level function)."""
    import multiprocessing as mp
    from concurrent.futures import ProcessPoolExecutor

    procs = procs or NCPU
    if len(items) < 4 or procs == 1:
        g = _Guarded(fn)
        return _raise_job_failures([g(x) for x in items])
    # a sample of the jobs (about 6 %, at least 6, spread over the list) runs in an interpreter started with -O and another
    # hash seed: behaviour must not depend on assert statements being executed, nor on the hash seed
    opt_idx = sorted(set(range(0, len(items), max(1, len(items) // max(6, len(items) // 16)))))[:120] if os.environ.get("VERIF_NO_OPT") != "1" else []
    opt_res = {}
    opt_proc = None
    opt_runs = []
    if opt_idx and getattr(fn, "__module__", "").startswith("props."):
        import pickle
        import subprocess
        import threading

        # two such interpreters with different hash seeds share the sample (set / dict iteration order differs between them)
        parts = [(opt_idx[0::2], "4242"), (opt_idx[1::2], "1")]
        for idxs, hseed in parts:
            if not idxs:
                continue
            env = dict(os.environ, PYTHONOPTIMIZE="1", PYTHONHASHSEED=hseed, VERIF_NO_OPT="1")
            proc = subprocess.Popen([sys.executable, "-O", os.path.join(os.path.dirname(os.path.abspath(__file__)), "optworker.py")],
                                    stdin=subprocess.PIPE, stdout=subprocess.PIPE, stderr=subprocess.PIPE, env=env)
            payload = pickle.dumps((fn.__module__, fn.__name__, [items[k] for k in idxs]))
            box = {}

            def _feed(proc=proc, payload=payload, box=box):
                box["out"], box["err"] = proc.communicate(payload)

            th = threading.Thread(target=_feed)
            th.start()
            opt_runs.append((idxs, proc, th, box))
        opt_proc = True
    # executor workers are not daemonic, so a job may itself start processes (gaftools realign)
    with ProcessPoolExecutor(max_workers=procs, mp_context=mp.get_context("fork")) as ex:
        res = list(ex.map(_Guarded(fn), items, chunksize=chunk))
    for idxs, proc, th, box in opt_runs:
        th.join(1800)
        out = box.get("out", b"")
        mark = out.rfind(b"\n==RESULT==\n")
        if proc.returncode != 0 or mark < 0:
            raise MachineryError("the -O worker failed: " + (box.get("err", b"")[-400:].decode(errors="replace")))
        for k, r in zip(idxs, pickle.loads(out[mark + 12:])):
            res[k] = _mark_opt(r)       # the result obtained under -O replaces the ordinary one for that job
    return _raise_job_failures(res)


def _mark_opt(r):
    """results obtained under -O are marked (field opt_run), so that a replay file says where it came from"""
    def tag(c):
        if isinstance(c, dict):
            c["opt_run"] = True
        return c
    if isinstance(r, list):
        return [tag(c) for c in r]
    return tag(r)
