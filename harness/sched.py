"""Deterministic scheduler for gaftools realign's collector (DESIGN 4.4).

`gaftools.cli.realign.mp` is replaced by FakeMP: every worker process is a thread that runs the
real `wfa_alignment` and blocks inside `qu.put` until the scheduler performs the corresponding
WPut/WSentinel; every call the real parent makes (start, get, is_alive, exitcode, join, write) is a
scheduling point. All threads are always *settled* (blocked in a fake call, or finished) when the
scheduler chooses the next action, so a run is a deterministic function of the chooser.

Two choosers: `Script` (lock-step replay of a TLC behaviour: environment actions are forced,
parent actions are observed and compared) and `Random` (seeded; the recorded trace is validated by
TLC afterwards).
"""

import queue as stdq
import random
import sys
import threading

import gaftools.cli.realign as RL

WAIT = 20  # seconds; a thread that does not settle within this is reported as 'stuck'


class Kill(BaseException):
    pass


class Crash(Exception):
    pass


class Divergence(Exception):
    def __init__(self, clause, detail):
        super().__init__(clause)
        self.clause = clause
        self.detail = detail


class FakeProcess:
    def __init__(self, sched, target, args):
        self.sched = sched
        self.target = target
        self.args = args
        self.state = "new"  # new run done exited dead failing
        self.code = None
        self.buf = []
        self.pending = None  # ("put", item) | ("returned",) | ("raised", exc)
        self.settled = threading.Event()
        self.go = threading.Event()
        self.order = None  # what the thread should do when released: None | "kill" | "crash"
        self.thread = None
        self.w = None
        sched.created.append(self)
        # the rest of the multiprocessing.Process surface a parent may reasonably touch
        FakeProcess._count = getattr(FakeProcess, "_count", 0) + 1
        self.name = f"Process-{FakeProcess._count}"
        self.pid = 40000 + FakeProcess._count
        self.daemon = False

    # ---- called from the worker thread
    def _run(self):
        try:
            self.target(*self.args)
            self.pending = ("returned",)
        except Kill:
            self.pending = ("killed",)
        except BaseException as e:  # noqa
            self.pending = ("raised", repr(e))
        self.settled.set()

    def worker_put(self, item):
        self.pending = ("put", item)
        self.settled.set()
        self.go.wait()
        self.go.clear()
        order, self.order = self.order, None
        if order == "kill" or self.sched.teardown:
            raise Kill()
        if order == "crash":
            raise Crash("injected worker crash")

    # ---- called from the scheduler thread
    def wait_settled(self):
        if not self.settled.wait(WAIT):
            raise Divergence("worker_stuck", {"w": self.w})

    def release(self, order=None):
        self.order = order
        self.settled.clear()
        self.go.set()

    # ---- API used by the real parent
    def start(self):
        self.sched.parent_call("start", self)

    def is_alive(self):
        return self.sched.parent_call("is_alive", self)

    @property
    def exitcode(self):
        return self.sched.parent_call("exitcode", self)

    def join(self, timeout=None):
        self.join_timeout = timeout
        return self.sched.parent_call("join", self)

    def close(self):
        pass

    def terminate(self):
        self.sched.parent_call("terminate", self)

    kill = terminate


class FakeQueue:
    def __init__(self, sched):
        self.sched = sched

    def put(self, item):
        threading.current_thread().proc.worker_put(item)

    def get(self, block=True, timeout=None):
        return self.sched.parent_call("get", "blocking" if (block and timeout is None) else None)


class _Stdout:
    def __init__(self, sched):
        self.sched = sched

    def write(self, text):
        if threading.current_thread() is self.sched.parent_thread:
            self.sched.parent_call("write", text)
        return len(text)

    def flush(self):
        pass


def itemno(item):
    """What the model calls a queue message: 0 = end-of-batch marker, k + 1 = the record of priority k.  An implementation
    whose messages have another shape (several records in one message, plain tuples) does not follow the model's protocol
    step for step: -1, which no state of the model contains - the lock-step replay then reports a divergence and the run is
    judged on its outcome (DESIGN 11.2b)."""
    if item is None:
        return 0
    p = getattr(item, "priority", None)
    return p + 1 if isinstance(p, int) and not isinstance(p, bool) else -1



class Sched:
    """One run of `gaftools realign` under the fake multiprocessing layer."""

    def __init__(self, argv, cap, C):
        self.argv = argv
        self.cap = cap
        self.C = C
        self.created = []  # processes created and not yet started (next group)
        self.procs = []  # processes of the running group, index w-1
        self.pipe = []
        self.req = stdq.Queue()
        self.resp = stdq.Queue()
        self.pending_call = None
        self.parent_thread = None
        self.teardown = False
        self.trace = []  # recorded events
        self.end = None  # ("finished"|"aborted"|"crashed", detail)
        self.faults = 0
        self.natural = 0      # workers whose target raised by itself (no fault was injected into them)
        self.early = 0        # faults that hit a worker IN its batch (its sentinel had not yet reached the pipe)
        self.last_early = 0
        self.written = []
        self.strict = True
        self.starting = False
        self.last_kind = None

    # ---- parent side
    def parent_call(self, kind, obj):
        if self.teardown:
            raise Kill()
        self.req.put((kind, obj))
        r = self.resp.get()
        if isinstance(r, BaseException):
            raise r
        if isinstance(r, tuple) and r and r[0] == "__raise__":
            raise r[1]
        return r

    def _parent_main(self):
        from gaftools.__main__ import main

        try:
            main(self.argv)
            self.req.put(("end", ("finished", "")))
        except SystemExit as e:
            code = e.code if isinstance(e.code, int) else (0 if e.code is None else 1)
            self.req.put(("end", ("finished" if code == 0 else "aborted", str(code))))
        except Kill:
            self.req.put(("end", ("killed", "")))
        except BaseException as e:  # noqa
            self.req.put(("end", ("crashed", f"{type(e).__name__}: {e}"[:200])))

    def next_call(self):
        """the parent's next (settled) call"""
        if self.pending_call is None:
            try:
                self.pending_call = self.req.get(timeout=WAIT)
            except stdq.Empty:
                raise Divergence("parent_stuck", {})
        return self.pending_call

    def reply(self, value):
        self.pending_call = None
        self.resp.put(value)

    # ---- life cycle
    def begin(self):
        import logging as _lg

        self.saved_handlers = _lg.getLogger().handlers[:]
        self.saved_level = _lg.getLogger().level
        self.saved_disable = _lg.root.manager.disable
        _lg.disable(_lg.NOTSET)      # messages are switched on: they belong to standard error, the records to standard output
        import io as _io

        self.saved_stderr = sys.stderr
        sys.stderr = _io.StringIO()      # (a sink: what the command logs is of no interest here)
        fake = self

        class FakeMP:
            @staticmethod
            def Queue(*a, **k):
                return FakeQueue(fake)

            @staticmethod
            def Process(target=None, args=(), **k):
                return FakeProcess(fake, target, args)

            @staticmethod
            def cpu_count():
                return 64

            @staticmethod
            def active_children():
                # every live child of the calling process: the workers of the running group AND a child that has nothing to
                # do with realign (the caller's own pool, a manager ...), which is what an embedding application looks like
                class _Bystander:
                    name, pid, daemon, exitcode = "Bystander-1", 39999, True, None

                    @staticmethod
                    def is_alive():
                        return True

                return [p for p in fake.procs if fake.alive(p)] + [_Bystander()]

            @staticmethod
            def current_process():
                class _Main:
                    name, pid, daemon = "MainProcess", 39000, False

                return _Main()

        self.saved_mp = RL.mp
        self.saved_stdout = sys.stdout
        RL.mp = FakeMP
        sys.stdout = _Stdout(self)
        self.parent_thread = threading.Thread(target=self._parent_main, daemon=True)
        self.parent_thread.start()

    def finish(self):
        self.teardown = True
        import logging as _lg

        for h in _lg.getLogger().handlers[:]:      # handlers the command's own set-up added (one per run; --debug runs too)
            if h not in getattr(self, "saved_handlers", []):
                _lg.getLogger().removeHandler(h)
        _lg.getLogger().setLevel(getattr(self, "saved_level", _lg.WARNING))
        _lg.disable(getattr(self, "saved_disable", _lg.CRITICAL))
        if getattr(self, "saved_stderr", None) is not None:
            sys.stderr = self.saved_stderr
        RL.mp = self.saved_mp
        sys.stdout = self.saved_stdout
        for p in self.procs + self.created:
            if p.thread is not None and p.thread.is_alive():
                p.release("kill")
        # unwind a parent that is blocked in a call
        if self.parent_thread.is_alive():
            self.resp.put(Kill())
            self.parent_thread.join(2)
        for p in self.procs + self.created:
            if p.thread is not None:
                p.thread.join(2)

    # ---- state queries on the fake world
    def alive(self, p):
        return p.state in ("run", "done", "failing")

    def W(self):
        return len(self.procs)

    # ---- performing actions.  Each returns the observation dict recorded in the trace.
    def do(self, t, w=None):
        ev = {"t": t}
        if w is not None:
            ev["w"] = w
        m = getattr(self, "a_" + t)
        obs = m(w) if w is not None else m()
        if obs:
            ev.update(obs)
        self.trace.append(ev)
        return ev

    def expect(self, kind, proc=None):
        k, obj = self.next_call()
        if k != kind or (proc is not None and obj is not proc):
            raise Divergence(
                "parent_call_mismatch",
                {"expected": kind, "got": k if k != "end" else f"end:{obj}", "proc": getattr(obj, "w", None)},
            )
        return obj

    def a_PStart(self):
        # the group consists of the processes created since the last group, in start() order
        procs = []
        while True:
            k, obj = self.next_call()
            if k != "start":
                break
            obj.w = len(procs) + 1
            procs.append(obj)
            obj.state = "run"
            th = threading.Thread(target=obj._run, daemon=True)
            th.proc = obj
            obj.thread = th
            th.start()
            obj.wait_settled()
            self.reply(None)
        if not procs:
            raise Divergence("parent_call_mismatch", {"expected": "start", "got": k})
        self.created = [p for p in self.created if p not in procs]
        self.procs = procs
        self.pipe = []
        return {"W": len(procs)}

    def _proc(self, w):
        if w < 1 or w > len(self.procs):
            raise Divergence("no_such_worker", {"w": w, "W": len(self.procs)})
        return self.procs[w - 1]

    def a_WPut(self, w, sentinel=False):
        p = self._proc(w)
        if p.state not in ("run", "failing") or p.pending is None or p.pending[0] != "put":
            raise Divergence("worker_not_putting", {"w": w, "pending": str(p.pending)[:80], "state": p.state})
        if p.state == "failing" and self.strict:
            raise Divergence("crashed_worker_keeps_sending", {"w": w, "item": "sentinel" if p.pending[1] is None else "record"})
        item = p.pending[1]
        if sentinel != (item is None):
            raise Divergence(
                "worker_put_mismatch",
                {"w": w, "expected": "sentinel" if sentinel else "record", "got": "sentinel" if item is None else "record"},
            )
        p.buf.append(item)
        if sentinel and p.state == "run":
            p.state = "done"
        p.pending = None
        p.release()
        p.wait_settled()
        return {"item": itemno(item)}

    def a_WSentinel(self, w):
        return self.a_WPut(w, sentinel=True)

    def a_WFlush(self, w):
        p = self._proc(w)
        if not (self.alive(p) and p.buf and len(self.pipe) < self.cap):
            raise Divergence("flush_not_possible", {"w": w})
        item = p.buf.pop(0)
        self.pipe.append(item)
        return {"item": itemno(item)}

    def a_WExit(self, w):
        p = self._proc(w)
        if not (p.state == "done" and not p.buf and p.pending == ("returned",)):
            raise Divergence("exit_not_possible", {"w": w, "state": p.state, "pending": str(p.pending)[:60]})
        p.state = "exited"
        p.code = 0
        return None

    def a_WKill(self, w):
        p = self._proc(w)
        if not self.alive(p):
            raise Divergence("kill_not_possible", {"w": w})
        if p.pending and p.pending[0] == "put":
            p.pending = None
            p.release("kill")
            p.wait_settled()
        self.last_early = 0 if (p.state == "done" and not p.buf) or getattr(p, "early", False) else 1
        p.early = True
        p.state = "dead"
        p.code = -9
        p.buf = []
        self.faults += 1
        self.early += self.last_early
        return None

    def a_WCrash(self, w):
        p = self._proc(w)
        if not (p.state == "run" and p.pending and p.pending[0] == "put"):
            raise Divergence("crash_not_possible", {"w": w})
        p.pending = None
        p.release("crash")
        p.wait_settled()
        if p.pending is None or p.pending[0] not in ("raised", "put"):
            raise Divergence("crash_not_propagated", {"w": w, "pending": str(p.pending)[:60]})
        # (pending == "put": the exception did not end the worker, it goes on talking to the parent,
        #  e.g. a sentinel sent from a finally clause; the strict replay reports that at the next step)
        p.state = "failing"
        self.faults += 1
        self.early += 1
        p.early = True
        return None

    def a_WFailExit(self, w):
        p = self._proc(w)
        if not (p.state == "failing" and not p.buf):
            raise Divergence("failexit_not_possible", {"w": w})
        if p.pending is not None and p.pending[0] == "put":
            raise Divergence("crashed_worker_keeps_sending", {"w": w, "item": "sentinel" if p.pending[1] is None else "record"})
        p.state = "dead"
        p.code = 1
        return None

    def a_PGetItem(self):
        self.expect("get")
        if not self.pipe:
            raise Divergence("get_on_empty_pipe", {})
        item = self.pipe.pop(0)
        self.reply(item)
        return {"item": itemno(item)}

    def a_PTimeout(self):
        if self.expect("get") == "blocking":
            # a get() WITHOUT timeout cannot time out: the model's PTimeout has no counterpart in this parent
            raise Divergence("blocking_get_cannot_time_out", {})
        if self.pipe:
            raise Divergence("timeout_on_nonempty_pipe", {})
        self.reply(("__raise__", stdq.Empty()))
        return None

    def a_PAlive(self):
        res = False
        asked = 0
        for p in self.procs:
            self.expect("is_alive", p)
            asked += 1
            a = self.alive(p)
            self.reply(a)
            if a:
                res = True
                break
        return {"alive": res, "asked": asked}

    def a_PExitChk(self):
        bad = False
        for p in self.procs:
            self.expect("exitcode", p)
            self.reply(p.code)
            if p.code != 0:
                bad = True
                break
        return {"bad": bad}

    def a_PJoin(self):
        for p in self.procs:
            self.expect("join", p)
            if self.alive(p):
                raise Divergence("join_would_block", {"w": p.w})
            self.reply(None)
        return None

    def a_PDrain(self):
        lines = []
        while True:
            k, obj = self.next_call()
            if k != "write":
                break
            lines.append(obj)
            self.reply(None)
        self.written += lines
        return {"lines": lines}

    def normalize(self, p):
        """a worker whose target raised by itself (bad data, sys.exit(n) ...) is a failing worker, exactly like one in which
        a crash was injected: it flushes what it has put, then exits with a non-zero code - also after its sentinel"""
        if p.pending is not None and p.pending[0] == "raised" and p.state in ("run", "done"):
            if p.state == "run":
                self.early += 1
                p.early = True
            p.state = "failing"
            self.faults += 1
            self.natural += 1
            self.trace.append({"t": "natural_failure", "w": p.w, "exc": str(p.pending[1])[:80]})

    def applicable(self, t, w):
        if w is None or w < 1 or w > len(self.procs):
            return False
        p = self.procs[w - 1]
        self.normalize(p)
        if t in ("WPut", "WSentinel"):
            return p.state in ("run", "failing") and p.pending is not None and p.pending[0] == "put" and (t == "WSentinel") == (p.pending[1] is None)
        if t == "WFlush":
            return self.alive(p) and bool(p.buf) and len(self.pipe) < self.cap
        if t == "WExit":
            return p.state == "done" and not p.buf and p.pending == ("returned",)
        if t == "WKill":
            return self.alive(p)
        if t == "WCrash":
            return p.state == "run" and p.pending is not None and p.pending[0] == "put"
        if t == "WFailExit":
            return p.state == "failing" and not p.buf and p.pending is not None and p.pending[0] == "raised"
        return False

    def exit_join(self):
        """What happens when the parent's main thread ends while workers are still running: multiprocessing's exit
        handler terminates the daemonic children and JOINS the others. Nobody reads the pipe any more, so a worker
        exits only if everything it still has to send fits into the pipe. Returns None, or why the process hangs."""
        for _ in range(100000):
            live = [p for p in self.procs if self.alive(p)]
            if not live:
                return None
            n = 0
            for p in live:
                if p.daemon:
                    self.do("WKill", p.w)
                    self.faults -= 1
                    self.early -= self.last_early
                    n += 1
                    continue
                for t in ("WSentinel", "WPut", "WFlush", "WExit", "WFailExit"):
                    if self.applicable(t, p.w):
                        self.do(t, p.w)
                        n += 1
                        break
            if n == 0:
                return "the program ends while worker(s) %s are alive: the exit handler joins them, but with nobody reading the queue they can never flush what they still have to send" % [p.w for p in live]
        return "exit-time join does not settle"

    def observe_end(self):
        k, obj = self.next_call()
        if k != "end":
            return None
        self.end = obj
        return obj


# --------------------------------------------------------------------------- choosers


def run_script(argv, cap, C, labels, names_of):
    """Lock-step replay. labels: [(t, w|None, post_state)] from TLC. names_of(prios)->expected lines.
    Returns (clause, detail)."""
    s = Sched(argv, cap, C)
    s.begin()
    step = -1
    try:
        for step, (t, w, post) in enumerate(labels):
            ev = s.do(t, w)
            # compare what the implementation did with the specification's post-state
            if t in ("WPut", "WSentinel", "WFlush", "WKill", "WCrash", "PStart", "PGetItem"):
                for ww in range(1, len(s.procs) + 1):
                    got = [itemno(i) for i in s.procs[ww - 1].buf]
                    if got != list(post["buf"][ww - 1]):
                        raise Divergence("buffer_mismatch", {"w": ww, "got": got, "spec": post["buf"][ww - 1]})
                gp = [itemno(i) for i in s.pipe]
                if gp != list(post["pipe"]):
                    raise Divergence("pipe_mismatch", {"got": gp, "spec": post["pipe"]})
            if t == "PGetItem" and ev["item"] != post["last"]:
                raise Divergence("item_mismatch", {"got": ev["item"], "spec": post["last"]})
            if t == "PAlive":
                exp = post["ppc"] == "get"
                if ev["alive"] != exp:
                    raise Divergence("alive_mismatch", {"got": ev["alive"], "spec": exp})
            if t == "PExitChk":
                exp = post["ppc"] == "aborted"
                if ev["bad"] != exp:
                    raise Divergence("exitcode_mismatch", {"got": ev["bad"], "spec": exp})
            if t == "PDrain":
                exp = names_of(post["out"])
                got = [l.split("\t")[0] for l in s.written]
                if got != exp:
                    raise Divergence("output_mismatch", {"got": got, "spec": exp})
            if post["ppc"] in ("finished", "aborted", "crashed"):
                end = s.observe_end()
                if end is None or end[0] != post["ppc"]:
                    k, obj = s.pending_call if s.pending_call else ("?", None)
                    raise Divergence(
                        "end_mismatch", {"spec": post["ppc"], "got": end[0] + ":" + end[1] if end else f"call:{k}"}
                    )
            else:
                # the parent must still be running: its next call must not be the end of the program
                if t.startswith("P"):
                    k, obj = s.next_call()
                    if k == "end":
                        raise Divergence("premature_end", {"spec": post["ppc"], "got": f"{obj[0]}:{obj[1]}"})
        return "ok", {"steps": len(labels), "written": [l.split("\t")[0] for l in s.written]}
    except Divergence as d:
        d.detail["step"] = step
        d.detail["action"] = f"{labels[step][0]}({labels[step][1]})" if step >= 0 else ""
        return d.clause, d.detail
    finally:
        s.finish()


def run_random(argv, cap, C, seed, max_faults=0, fault_kinds=(), max_steps=5000, p_timeout=0.25):
    """Seeded random schedule; returns (trace events, end, written lines)."""
    rnd = random.Random(seed)
    s = Sched(argv, cap, C)
    s.begin()
    started = False
    try:
        for _ in range(max_steps):
            k, obj = s.next_call()
            if k == "end":
                s.end = obj
                break
            choices = []
            for p in s.procs:
                w = p.w
                if p.state == "run" and p.pending and p.pending[0] == "put":
                    choices.append(("WSentinel" if p.pending[1] is None else "WPut", w, 3))
                    if s.faults < max_faults and "crash" in fault_kinds:
                        choices.append(("WCrash", w, 0.3))
                if s.alive(p) and p.buf and len(s.pipe) < s.cap:
                    choices.append(("WFlush", w, 3))
                if p.state == "done" and not p.buf and p.pending == ("returned",):
                    choices.append(("WExit", w, 2))
                if p.state == "failing" and not p.buf:
                    choices.append(("WFailExit", w, 2))
                if s.alive(p) and s.faults < max_faults and "kill" in fault_kinds:
                    choices.append(("WKill", w, 0.3))
            if k == "start":
                choices = [("PStart", None, 1)]
            elif k == "get":
                if s.pipe:
                    choices.append(("PGetItem", None, 3))
                elif obj == "blocking":
                    if not choices:
                        s.trace.append({"t": "HANG", "why": "get() without timeout on an empty queue and no worker step enabled"})
                        break
                else:
                    choices.append(("PTimeout", None, 3 * p_timeout / (1 - p_timeout) if choices else 1))
            elif k == "is_alive":
                choices.append(("PAlive", None, 2))
            elif k == "exitcode":
                choices.append(("PExitChk", None, 2))
            elif k == "join":
                if all(not s.alive(p) for p in s.procs):
                    choices.append(("PJoin", None, 3))
                elif not choices:
                    s.trace.append({"t": "HANG", "why": "join with live workers and no enabled worker step"})
                    break
            elif k == "write":
                choices = [("PDrain", None, 1)]
            tot = sum(c[2] for c in choices)
            x = rnd.random() * tot
            for t, w, wt in choices:
                x -= wt
                if x <= 0:
                    break
            s.do(t, w)
        else:
            s.trace.append({"t": "LIVELOCK", "why": f"no termination within {max_steps} steps"})
        return s.trace, s.end, [l for l in s.written]
    except Divergence as d:
        s.trace.append({"t": "STUCK", "why": d.clause, "detail": str(d.detail)[:200]})
        return s.trace, s.end, [l for l in s.written]
    finally:
        s.finish()


# --------------------------------------------------------------------------- tolerant schedule replay

_FIRST_CALL = {"PStart": "start", "PGetItem": "get", "PTimeout": "get", "PAlive": "is_alive", "PExitChk": "exitcode", "PJoin": "join", "PDrain": "write"}


def run_schedule(argv, cap, C, labels, max_idle_calls=400):
    """Use a TLC behaviour only as a *schedule*: its worker/fault actions are applied at the parent
    call where the behaviour has them, every call of the real parent is answered truthfully from
    the state of the fake world, whatever calls it makes and in whatever order. Nothing about the
    parent's structure is assumed; the outcome (end status, written records, faults) is judged
    afterwards. If the parent follows the model this reproduces the lock-step run exactly."""
    s = Sched(argv, cap, C)
    s.strict = False
    s.begin()
    idx = 0
    idle = 0
    hang = None
    diverged = None

    applicable = s.applicable

    def env_from_schedule():
        nonlocal idx
        n = 0
        while idx < len(labels) and labels[idx][0].startswith("W"):
            t, w, _ = labels[idx]
            idx += 1
            if applicable(t, w):
                s.do(t, w)
                n += 1
        return n

    def env_default():
        """one round of fair progress once the schedule is used up"""
        n = 0
        for p in list(s.procs):
            w = p.w
            for t in ("WSentinel", "WPut", "WFlush", "WExit", "WFailExit"):
                if applicable(t, w):
                    s.do(t, w)
                    n += 1
                    break
        return n

    def progress():
        """used while the parent is blocked in a call: the world moves on without it"""
        nonlocal idx
        while True:
            n = env_from_schedule()
            if n:
                return n
            if idx < len(labels):      # a parent action of the model that this parent does not take here
                idx += 1
                continue
            return env_default()

    try:
        while True:
            k, obj = s.next_call()
            if k == "end":
                s.end = obj
                hang = s.exit_join()
                if hang:
                    s.end = None
                break
            before = (len(s.pipe), tuple(p.state for p in s.procs), len(s.written))
            if k == "start":
                # a process of the next group: the group is complete when the parent stops calling start
                if obj in s.created:
                    s.created.remove(obj)
                    if not s.starting:
                        s.procs = []
                        s.pipe = []
                        s.starting = True
                    obj.w = len(s.procs) + 1
                    s.procs.append(obj)
                    obj.state = "run"
                    th = threading.Thread(target=obj._run, daemon=True)
                    th.proc = obj
                    obj.thread = th
                    th.start()
                    obj.wait_settled()
                s.trace.append({"t": "start", "w": obj.w})
                s.last_kind = "start"
                s.reply(None)
                if idx < len(labels) and labels[idx][0] == "PStart":
                    idx += 1
                continue
            s.starting = False
            if k == "join" and getattr(obj, "join_timeout", None) is not None and getattr(obj, "timed_joins", 0) == 0:
                # join(timeout): the first such call on a worker returns at once, before the world has moved - if the worker
                # has not exited yet it is still alive afterwards (its exit may take longer than any timeout)
                obj.timed_joins = 1
                # ... and so it is for the liveness / exit-code scan that follows directly: the world stands still for the
                # next 2 x (number of workers) non-waiting calls, then moves on (a polling loop converges)
                s.freeze = 2 * max(1, len(s.procs))
                s.reply(None)
                continue
            if getattr(s, "freeze", 0) > 0 and k in ("exitcode", "is_alive"):
                s.freeze -= 1
                s.last_kind = k
                s.reply(s.alive(obj) if k == "is_alive" else obj.code)
                continue
            s.freeze = 0
            continuation = k == s.last_kind and k != "get"      # 2nd is_alive / exitcode / join / write of one scan
            if not continuation:
                env_from_schedule()                             # what the behaviour does before its next parent action
                if idx < len(labels):                           # that parent action is consumed by this call
                    if _FIRST_CALL.get(labels[idx][0]) != k:
                        diverged = diverged or f"call {k} where the model has {labels[idx][0]}"
                    idx += 1
                else:
                    env_default()
            s.last_kind = k
            if k == "get":
                while obj == "blocking" and not s.pipe:
                    if not progress():
                        hang = "get() without timeout on a queue that can never receive an item"
                        break
                if hang:
                    break
                if s.pipe:
                    item = s.pipe.pop(0)
                    s.trace.append({"t": "get", "item": itemno(item)})
                    s.reply(item)
                else:
                    s.trace.append({"t": "timeout"})
                    s.reply(("__raise__", stdq.Empty()))
            elif k == "is_alive":
                s.reply(s.alive(obj))
            elif k == "exitcode":
                s.reply(obj.code)
            elif k == "join":
                if getattr(obj, "join_timeout", None) is not None:
                    # later join(timeout) calls let the world move on one round, so that a loop around them converges
                    if s.alive(obj):
                        progress()
                    obj.timed_joins = getattr(obj, "timed_joins", 0) + 1
                    s.reply(None)
                    continue
                while s.alive(obj):
                    if not progress():
                        hang = f"join() on worker {obj.w} which can never exit (pipe full or unsent item)"
                        break
                if hang:
                    break
                s.reply(None)
            elif k == "write":
                s.written.append(obj)
                s.reply(None)
            elif k == "terminate":
                if s.alive(obj):
                    s.do("WKill", obj.w)
                    s.faults -= 1          # the parent's own doing, not an injected fault
                    s.early -= s.last_early
                s.reply(None)
            else:
                s.reply(None)
            after = (len(s.pipe), tuple(p.state for p in s.procs), len(s.written))
            idle = idle + 1 if (after == before and idx >= len(labels)) else 0
            if idle > max_idle_calls:
                hang = f"{idle} parent calls without any change after the schedule was used up"
                break
        end = s.end if s.end else ("hang", hang or "")
        return {"end": end[0], "end_detail": end[1], "written": list(s.written), "faults": s.faults, "early": s.early, "natural": s.natural, "diverged": diverged or ""}
    except Divergence as d:
        return {"end": "stuck", "end_detail": d.clause + ":" + str(d.detail)[:120], "written": list(s.written), "faults": s.faults, "early": s.early, "natural": s.natural, "diverged": diverged or ""}
    finally:
        s.finish()
