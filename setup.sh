#!/bin/sh
# Offline setup: nothing to build; verify the toolchain is present and the specs parse.
set -e
cd /verif
command -v java >/dev/null
test -f /opt/veriftools/tla/tla2tools.jar
/venv/bin/python -c "import pysam, pywfa, gaftools"
mkdir -p evidence replays
echo "setup ok"
