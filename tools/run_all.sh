#!/bin/sh
# usage: tools/run_all.sh [quick|thorough]   run every check on the current tree, print one line each
cd /verif || exit 2
T="${1:-quick}"
rc=0
for p in C01 C02 C03 C04 C05 C06 C07 C08 C09 C10 C11 C12 C13 C14 C15 C16 C17 C18 C19 C20; do
  out=$(./check $p --tier "$T" 2>&1); r=$?
  echo "$out" | grep -E "^\[$p\]|^VIOLATION|^KNOWN-FINDING|MACHINERY" | cut -c1-220
  [ $r -ne 0 ] && { echo "  -> $p exit $r"; rc=1; }
done
exit $rc
