#!/venv/bin/python
"""Confirm a seeded change produced by a sub-agent and archive it under /verif/seeded/<name>/.

usage: tools/seed.py confirm <worktree> <property> <name>   (re-runs tests and demo with / without the patch)
       tools/seed.py run <name> [tier]                        (apply to /repo, run ./check <property>, revert)
       tools/seed.py runall [tier]
"""
import json
import os
import shutil
import subprocess
import sys
import time

V = "/verif"


def sh(cmd, cwd=None, env=None, timeout=1800):
    e = dict(os.environ)
    e.update(env or {})
    p = subprocess.run(cmd, shell=True, cwd=cwd, env=e, capture_output=True, text=True, timeout=timeout)
    return p.returncode, (p.stdout + p.stderr)


def confirm(wt, prop, name):
    env = {"PYTHONPATH": wt}
    env_off = dict(env)
    patch = os.path.join(wt, "patch.diff")
    demo = os.path.join(wt, f"demo_{prop}.py")
    assert os.path.exists(patch) and os.path.exists(demo), "missing patch.diff or demo"
    # clean tree, then apply the patch
    sh("git checkout -- gaftools", cwd=wt)
    rc, out = sh(f"git apply --check {patch}", cwd=wt)
    assert rc == 0, "patch does not apply to clean tree: " + out
    rc0, o0 = sh(f"/venv/bin/python {demo}", cwd=wt, env=env)
    sh(f"git apply {patch}", cwd=wt)
    rct, ot = sh("env -u GAFTOOLS_VERIF /venv/bin/python -m pytest -q -p no:cacheprovider tests", cwd=wt, env=env)
    rc1, o1 = sh(f"/venv/bin/python {demo}", cwd=wt, env=env)
    sh("git checkout -- gaftools", cwd=wt)
    res = {
        "demo_without_patch_rc": rc0,
        "tests_with_patch": ot.strip().splitlines()[-1] if ot.strip() else "",
        "tests_with_patch_rc": rct,
        "demo_with_patch_rc": rc1,
        "demo_with_patch_tail": o1.strip().splitlines()[-3:],
    }
    ok = rc0 == 0 and rct == 0 and rc1 != 0
    print(json.dumps(res, indent=1))
    if not ok:
        print("NOT CONFIRMED")
        return 1
    d = os.path.join(V, "seeded", name)
    os.makedirs(d, exist_ok=True)
    shutil.copy(patch, os.path.join(d, "patch.diff"))
    shutil.copy(demo, os.path.join(d, os.path.basename(demo)))
    notes = os.path.join(wt, "NOTES.md")
    if os.path.exists(notes):
        shutil.copy(notes, os.path.join(d, "NOTES.md"))
    meta = {
        "name": name,
        "property": prop,
        "origin": "fresh sub-agent given only the property text and a scratch worktree",
        "confirmed": res,
        "confirmed_by": "tools/seed.py confirm: demo passes on clean worktree, 54 tests pass with patch, demo fails with patch",
        "needs": "",
        "detected_by": {},
    }
    mp = os.path.join(d, "meta.json")
    if os.path.exists(mp):
        old = json.load(open(mp))
        meta["needs"] = old.get("needs", "")
        meta["detected_by"] = old.get("detected_by", {})
    json.dump(meta, open(mp, "w"), indent=1)
    print("CONFIRMED ->", d)
    return 0


def run(name, tier="quick", props=None):
    d = os.path.join(V, "seeded", name)
    meta = json.load(open(os.path.join(d, "meta.json")))
    props = props or [meta["property"]]
    rc, out = sh("git -C /repo diff --quiet")
    assert rc == 0, "/repo dirty"
    rc, out = sh(f"git -C /repo apply {d}/patch.diff")
    if rc != 0:
        print(f"{name}: patch does not apply to /repo HEAD: {out.strip()[:200]}")
        return None
    results = {}
    try:
        for p in props:
            t0 = time.time()
            rc, out = sh(f"./check {p} --tier {tier}", cwd=V)
            viol = [l for l in out.splitlines() if l.startswith("VIOLATION")]
            results[p] = {"rc": rc, "violations": [v.split("clause=")[-1] for v in viol][:6], "wall_s": round(time.time() - t0, 1)}
            if rc == 2:
                results[p]["machinery"] = out.strip().splitlines()[-5:]
            print(f"{name}: ./check {p} --tier {tier} -> rc={rc} {results[p]['violations']}")
    finally:
        sh("git -C /repo checkout -- .")
    meta.setdefault("detected_by", {})
    for p, r in results.items():
        meta["detected_by"][f"{p}:{tier}"] = r
    json.dump(meta, open(os.path.join(d, "meta.json"), "w"), indent=1)
    return results


if __name__ == "__main__":
    cmd = sys.argv[1]
    if cmd == "confirm":
        sys.exit(confirm(*sys.argv[2:5]))
    elif cmd == "run":
        run(sys.argv[2], *(sys.argv[3:4] or ["quick"]), props=sys.argv[4:] or None)
    elif cmd == "runall":
        tier = sys.argv[2] if len(sys.argv) > 2 else "quick"
        for n in sorted(os.listdir(os.path.join(V, "seeded"))):
            if os.path.exists(os.path.join(V, "seeded", n, "meta.json")):
                run(n, tier)
