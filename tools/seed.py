#!/venv/bin/python
"""Confirm a seeded change produced by a sub-agent and archive it under /verif/seeded/<name>/.

usage: tools/seed.py confirm <worktree> <property> <name>   (re-runs tests and demo with / without the patch)
       tools/seed.py run <name> [tier]                        (apply to /repo, run ./check <property>, revert)
       tools/seed.py runall [tier]
"""
import json
import os
import shutil
import subprocess
import sys
import time

V = "/verif"


def sh(cmd, cwd=None, env=None, timeout=1800):
    e = dict(os.environ)
    e.update(env or {})
    p = subprocess.run(cmd, shell=True, cwd=cwd, env=e, capture_output=True, text=True, timeout=timeout)
    return p.returncode, (p.stdout + p.stderr)


def confirm(wt, prop, name, patch_name="patch.diff", demo_name=None):
    env = {"PYTHONPATH": wt}
    env_off = dict(env)
    patch = os.path.join(wt, patch_name)
    demo = os.path.join(wt, demo_name or f"demo_{prop}.py")
    assert os.path.exists(patch) and os.path.exists(demo), "missing patch.diff or demo"
    # clean tree, then apply the patch
    sh("git checkout -- gaftools", cwd=wt)
    rc, out = sh(f"git apply --check {patch}", cwd=wt)
    assert rc == 0, "patch does not apply to clean tree: " + out
    rc0, o0 = sh(f"/venv/bin/python {demo}", cwd=wt, env=env)
    sh(f"git apply {patch}", cwd=wt)
    rct, ot = sh("env -u GAFTOOLS_VERIF /venv/bin/python -m pytest -q -p no:cacheprovider tests", cwd=wt, env=env)
    rc1, o1 = sh(f"/venv/bin/python {demo}", cwd=wt, env=env)
    sh("git checkout -- gaftools", cwd=wt)
    res = {
        "demo_without_patch_rc": rc0,
        "tests_with_patch": ot.strip().splitlines()[-1] if ot.strip() else "",
        "tests_with_patch_rc": rct,
        "demo_with_patch_rc": rc1,
        "demo_with_patch_tail": o1.strip().splitlines()[-3:],
    }
    ok = rc0 == 0 and rct == 0 and rc1 != 0
    print(json.dumps(res, indent=1))
    if not ok:
        print("NOT CONFIRMED")
        return 1
    d = os.path.join(V, "seeded", name)
    os.makedirs(d, exist_ok=True)
    shutil.copy(patch, os.path.join(d, "patch.diff"))
    shutil.copy(demo, os.path.join(d, os.path.basename(demo)))
    notes = os.path.join(wt, "NOTES.md")
    if os.path.exists(notes):
        shutil.copy(notes, os.path.join(d, "NOTES.md"))
    meta = {
        "name": name,
        "property": prop,
        "origin": "fresh sub-agent given only the property text and a scratch worktree",
        "confirmed": res,
        "confirmed_by": "tools/seed.py confirm: demo passes on clean worktree, 54 tests pass with patch, demo fails with patch",
        "needs": "",
        "detected_by": {},
    }
    mp = os.path.join(d, "meta.json")
    if os.path.exists(mp):
        old = json.load(open(mp))
        meta["needs"] = old.get("needs", "")
        meta["detected_by"] = old.get("detected_by", {})
    json.dump(meta, open(mp, "w"), indent=1)
    print("CONFIRMED ->", d)
    return 0


def run(name, tier="quick", props=None):
    d = os.path.join(V, "seeded", name)
    meta = json.load(open(os.path.join(d, "meta.json")))
    props = props or [meta["property"]]
    rc, out = sh("git -C /repo diff --quiet")
    assert rc == 0, "/repo dirty"
    rc, out = sh(f"git -C /repo apply {d}/patch.diff")
    if rc != 0:
        print(f"{name}: patch does not apply to /repo HEAD: {out.strip()[:200]}")
        return None
    results = {}
    try:
        for p in props:
            t0 = time.time()
            rc, out = sh(f"./check {p} --tier {tier}", cwd=V)
            viol = [l for l in out.splitlines() if l.startswith("VIOLATION")]
            results[p] = {"rc": rc, "violations": [v.split("clause=")[-1] for v in viol][:6], "wall_s": round(time.time() - t0, 1)}
            if rc == 2:
                results[p]["machinery"] = out.strip().splitlines()[-5:]
            print(f"{name}: ./check {p} --tier {tier} -> rc={rc} {results[p]['violations']}")
    finally:
        sh("git -C /repo checkout -- .")
    meta.setdefault("detected_by", {})
    for p, r in results.items():
        meta["detected_by"][f"{p}:{tier}"] = r
    json.dump(meta, open(os.path.join(d, "meta.json"), "w"), indent=1)
    return results


def prun_one(arg):
    """like run(), but in a scratch worktree of /repo (VERIF_REPO) with its own output dir, so that /repo stays
    untouched and several seeds can be evaluated at the same time"""
    name, tier = arg
    d = os.path.join(V, "seeded", name)
    meta = json.load(open(os.path.join(d, "meta.json")))
    props = [meta["property"]] if meta.get("property") else [f"C{k:02d}" for k in range(1, 21)]
    wt = f"/tmp/seedwt/{name}"
    out_dir = f"/tmp/seedout/{name}"
    sh(f"git -C /repo worktree remove --force {wt}")
    os.makedirs("/tmp/seedwt", exist_ok=True)
    os.makedirs(out_dir, exist_ok=True)
    rc, out = sh(f"git -C /repo worktree add -q --detach {wt} HEAD")
    assert rc == 0, out
    results = {}
    try:
        rc, out = sh(f"git apply {d}/patch.diff", cwd=wt)
        if rc != 0:
            return name, {"apply_failed": out.strip()[:200]}
        for p in props:
            t0 = time.time()
            rc, out = sh(f"./check {p} --tier {tier}", cwd=V, env={"VERIF_REPO": wt, "VERIF_OUT": out_dir}, timeout=4 * 3600)
            viol = [l for l in out.splitlines() if l.startswith("VIOLATION")]
            results[p] = {"rc": rc, "violations": [v.split("clause=")[-1] for v in viol][:6], "wall_s": round(time.time() - t0, 1)}
            if rc == 2:
                results[p]["machinery"] = out.strip().splitlines()[-5:]
    finally:
        sh(f"git -C /repo worktree remove --force {wt}")
        shutil.rmtree(out_dir, ignore_errors=True)
    return name, results


def prun(tier, jobs, names):
    from concurrent.futures import ThreadPoolExecutor

    names = names or sorted(n for n in os.listdir(os.path.join(V, "seeded")) if os.path.exists(os.path.join(V, "seeded", n, "meta.json")))
    bad = 0
    with ThreadPoolExecutor(jobs) as ex:
        for name, results in ex.map(prun_one, [(n, tier) for n in names]):
            mp = os.path.join(V, "seeded", name, "meta.json")
            meta = json.load(open(mp))
            benign = not meta.get("property")
            line = []
            for p, r in results.items():
                if not isinstance(r, dict) or "rc" not in r:
                    line.append(f"{p}={r}")
                    bad += 1
                    continue
                meta.setdefault("detected_by", {})[f"{p}:{tier}"] = r
                expected = 0 if benign else 1
                if r["rc"] != expected:
                    bad += 1
                if not benign or r["rc"] != 0:
                    line.append(f"{p} rc={r['rc']} {r['violations'][:2]} {r['wall_s']}s")
            json.dump(meta, open(mp, "w"), indent=1)
            print(f"{name}: " + ("; ".join(line) if line else "silent on all 20"), flush=True)
    print(f"UNEXPECTED: {bad}")
    return 1 if bad else 0


if __name__ == "__main__":
    cmd = sys.argv[1]
    if cmd == "prun":
        sys.exit(prun(sys.argv[2], int(sys.argv[3]), sys.argv[4:]))
    if cmd == "confirm":
        sys.exit(confirm(*sys.argv[2:5]))
    if cmd == "confirm3":      # a round in which every sub-agent delivers patch1..3.diff / demo1..3.py: <wt> <prop> <suffix letter>
        wt, prop, letter = sys.argv[2:5]
        bad = 0
        for n in (1, 2, 3):
            if os.path.exists(os.path.join(wt, f"patch{n}.diff")):
                bad += confirm(wt, prop, f"{prop}-{letter}{n}", f"patch{n}.diff", f"demo{n}.py")
        sys.exit(1 if bad else 0)
    elif cmd == "run":
        run(sys.argv[2], *(sys.argv[3:4] or ["quick"]), props=sys.argv[4:] or None)
    elif cmd == "runall":
        tier = sys.argv[2] if len(sys.argv) > 2 else "quick"
        for n in sorted(os.listdir(os.path.join(V, "seeded"))):
            if os.path.exists(os.path.join(V, "seeded", n, "meta.json")):
                run(n, tier)
