#!/venv/bin/python
"""Regenerate MANIFEST.json from tools/manifest_src.py (kept valid at all times)."""
import json, os, sys
sys.path.insert(0, os.path.dirname(__file__))
from manifest_src import CHECKS, NOT_APPLICABLE, HOOK_COMMITS, NOTES
V = "/verif"
props = [json.loads(l) for l in open(f"{V}/properties.jsonl")]
ids = [p["id"] for p in props]
checks = []
for pid in ids:
    if pid not in CHECKS:
        continue
    c = CHECKS[pid]
    checks.append({
        "property_id": pid,
        "quick_cmd": f"./check {pid} --tier quick",
        "thorough_cmd": f"./check {pid} --tier thorough",
        "evidence_file": f"/verif/evidence/{pid}.json",
        "replay_cmd_template": f"./check {pid} --replay {{path}}",
        "engine": "tlc+harness",
        "level_claimed": {"category": "model_checking", "text": c["text"], "design_ref": c["ref"]},
        "level_note": c["note"],
        "technique": c["technique"],
    })
na = [{"property_id": p, "reason": NOT_APPLICABLE.get(p, "check not built yet in this round (planned, see DESIGN.md section 5)")} for p in ids if p not in CHECKS]
m = {
    "version": 1,
    "setup_cmd": "cd /verif && ./setup.sh",
    "hooks": {
        "guard": "GAFTOOLS_VERIF",
        "enable": "checks set GAFTOOLS_VERIF=1 (and GAFTOOLS_VERIF_BATCH_SIZE) in their own process environment; no build step, gaftools is imported from /repo's working tree",
        "baseline_off_cmd": "cd /repo && env -u GAFTOOLS_VERIF -u GAFTOOLS_VERIF_BATCH_SIZE /venv/bin/python -m pytest -ra -q -p no:cacheprovider --timeout=900 --continue-on-collection-errors",
        "source_commits": HOOK_COMMITS,
        "add_only": True,
    },
    "engines": [
        {"name": "tlc+harness", "path": "/verif/check", "serves_properties": [c["property_id"] for c in checks],
         "kind_free_text": "TLA+ specifications in /verif/spec model-checked by TLC; TLC-generated states/behaviours replayed into gaftools (harness/props/*.py); implementation results validated by TLC (spec/Check_*.tla, Trace_*.tla)"},
    ],
    "checks": checks,
    "not_applicable": na,
    "notes": NOTES,
}
json.dump(m, open(f"{V}/MANIFEST.json", "w"), indent=1)
print("checks:", [c["property_id"] for c in checks], "n/a:", len(na))
