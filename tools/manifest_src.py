HOOK_COMMITS = ["5411e01"]
NOTES = "See DESIGN.md. Exit codes: 0 held / 1 violation (VIOLATION line) / 2 machinery failure. Beyond the listed properties the specification also covers the rest of the GFA library surface and its visited-flag protocol (spec/GfaQueries.tla, ./check X01), the biccs state machine on line-level traces (spec/Biccs.tla, X02), the file-system contract of the commands (spec/Frame.tla, X03), histories of commands and their algebra (spec/Pipeline.tla, X04) and the outcome class of every option combination (spec/CliTable.tla, X05): EXT-DEVIATION lines, evidence_ext/; DESIGN 11.2e-11.2j - not claimed checks. An exception raised inside gaftools by a library call of a check is reported as a violation (raised_inside_gaftools:<type>), not as a machinery failure."
NOT_APPLICABLE = {}
CHECKS = {
    "C14": dict(
        text="TLC enumerates every graph of the bounded GfaStore model (all link orientation combinations, self-links, links declared from either end) and checks the walk-reversal law on the spec; every graph is written as GFA, loaded by gaftools, and ALL step lists up to length 3 are run through GFA.extract_path and `gaftools find_path`; TLC (Check_C14) decides every result against RGFA.IsWalk/Spell. Exhaustive within the bound, not a proof beyond it.",
        ref="5 C14",
        note="Trusted: TLC, the TLA+ value parser, the GFA writer in harness/props/c14.py. Bounded: <=2 nodes/<=2 links (quick), <=3 nodes/<=3 links (thorough), step lists <=3, alphabet ACGTN.",
        technique="TLC bounded enumeration of GfaStore states replayed into gaftools; results validated by TLC against RGFA.IsWalk/Spell",
    ),
    "C11": dict(
        text="Realign.tla models the collector, its workers and the multiprocessing queue (buffer, feeder, bounded pipe); TLC checks exactly-once/in-order/termination over every interleaving for small R/B/C, and a transition tour over EVERY edge of TLC's state graph plus random walks is replayed in lock-step on the real realign_gaf under a deterministic scheduler (environment actions forced, parent calls observed). Seeded random schedules are recorded from the real code and validated by TLC (Check_Realign). Output is compared with a real single-core run.",
        ref="5 C11, 4.4",
        note="Trusted: the fake multiprocessing layer (harness/sched.py) whose semantics are the ones modelled; atomic liveness snapshots; small constants (R<=5, C<=3). Hook: GAFTOOLS_VERIF_BATCH_SIZE.",
        technique="TLC model checking of Realign.tla; transition-tour replay into realign_gaf; TLC trace validation of recorded schedules",
    ),
    "C13": dict(
        text="Same model with fault actions (WKill: buffer lost; WCrash: buffer flushed, exit 1) enabled at every point of a worker's batch; TLC checks 'finished => complete', 'abort only after a fault' and termination under fairness; every edge of the state graph is replayed in lock-step on the real code, random fault schedules are trace-validated by TLC, and a real-multiprocessing tier SIGKILLs real workers at chosen puts.",
        ref="5 C13, 4.4",
        note="Trusted: fake multiprocessing layer (cross-checked by the real SIGKILL tier); death mid-pipe-write is below the model's granularity; death after the sentinel was delivered only requires a complete output (DESIGN 7.3).",
        technique="TLC model checking with fault actions; lock-step replay of fault schedules; TLC trace validation; real SIGKILL runs",
    ),
    "C15": dict(
        text="GfaStore.tla is the GFA object as a state machine (AddNode/AddLink/DelNode with the code's side encoding and link-tag keys); TLC checks symmetry/no-dangling/delete-forgets on it and the self-consistency of the declarative decomposition (pairwise blocks = maximal biconnected subsets; every link in one block). A transition tour over every edge of the bounded state graph is executed on the real GFA object under several query-point masks; every simple graph on <=5/6 nodes and seeded random multigraphs are decomposed by the real code; TLC (Check_C15) folds each history through GfaStore!Apply and compares projections and query answers with RGFA.CompsOf/Decomp/Reach.",
        ref="5 C15",
        note="Trusted: TLC, the projection code in harness/props/c15.py. Bounds: histories over <=3 nodes, <=2-3 links, <=1 deletion; graphs <=6 nodes exhaustive, <=14 nodes random. biccs queried per component via graph_from_comp.",
        technique="TLC model checking of GfaStore.tla; transition-tour replay into gaftools.gfa.GFA; TLC validation of recorded histories against declarative graph definitions",
    ),
    "C01": dict(
        text="Coords.tla defines what a GAF path designates (Denote: read-oriented sequence of <node, offset, strand> positions) for unstable, stable-interval and bare-contig paths, and generates every (rGFA, walk) within the bound; gaftools view converts ALL offset pairs of every generated walk u->s->u2 (plus seeded random larger graphs); TLC (Check_Coords) decides same locus, CIGAR orientation and path length for each conversion in both directions.",
        ref="5 C01, App. A.1",
        note="Trusted: TLC, GAF/GFA splitters in harness/readers.py. Bounds: <=3 ref segments of length <=2, <=2 haplotype segments (touching/separated), walks <=2 (quick) / <=3 (thorough) plus random walks <=6 over <=10 nodes; '+'-strand inputs.",
        technique="TLC bounded enumeration of Coords generator states replayed through gaftools view; TLC validation against the positional Denote oracle",
    ),
    "C02": dict(
        text="Same enumeration as C01; multi-record files are converted u->s->u2->s2 and TLC decides that untouched columns/optional fields are identical, that records stay in order one-for-one, and that canonical records round-trip exactly in both directions.",
        ref="5 C02",
        note="As C01; 'canonical stable form' = gaftools' own output for a canonical unstable record; optional fields from the parser-safe alphabet (C16 covers the rest).",
        technique="TLC bounded enumeration + TLC validation of exact round trips through gaftools view",
    ),
    "C03": dict(
        text="ViewIndex.tla defines which nodes a record traverses (unstable path nodes; stable intervals / contig span overlap) and generates every session within the bound; gaftools index runs on each file in both formats and storages (plain, multi-block BGZF); the harness unpickles the .gvi, seeks the real file to every listed offset with its own reader and with GAF.read_line, and TLC (Check_View.V03) decides keys, exact record sets and resolution.",
        ref="5 C03", note="Trusted: TLC, the BGZF block walker / line splitters in harness/readers.py, pickle. Bounds: reference chain <=3 (quick) / <=4 (thorough) segments of length 1-2, <=2 haplotype segments, walks <=2-3 steps, <=1-2 unaligned nodes; stable files are gaftools' own conversions of the unstable ones.",
        technique="TLC bounded enumeration of ViewIndex sessions replayed through gaftools index; TLC validation of the unpickled index against IndexOf",
    ),
    "C04": dict(
        text="Same sessions; ALL node lists of length <=2 (repeats, any order, aligned or not) are run through gaftools view --node, plus --format variants compared with selecting from the whole-file conversion, plus the plain reproduction of the file; TLC (Check_View.V04) decides selection, order, exactly-once, nothing-found reporting.",
        ref="5 C04", note="Trusted: TLC, the BGZF block walker / line splitters in harness/readers.py, pickle. Bounds: reference chain <=3 (quick) / <=4 (thorough) segments of length 1-2, <=2 haplotype segments, walks <=2-3 steps, <=1-2 unaligned nodes; stable files are gaftools' own conversions of the unstable ones.",
        technique="TLC bounded enumeration + exhaustive node-list queries through gaftools view; TLC validation against Select",
    ),
    "C05": dict(
        text="Same sessions; ALL regions (every contig, every 0<=a<=b<contig length) and seeded region pairs are run through gaftools view --region under a per-query alarm; TLC (Check_View.V05) accepts any node set between half-open and closed end semantics and decides selection, order, termination and absence of internal errors. Added by hand: a reference chain of 60 (thorough 75) aligned segments with regions over 49 / 50 / 51 / all indexed nodes.",
        ref="5 C05", note="Trusted: TLC, the BGZF block walker / line splitters in harness/readers.py, pickle. Bounds: reference chain <=3 (quick) / <=4 (thorough) segments of length 1-2, <=2 haplotype segments, walks <=2-3 steps, <=1-2 unaligned nodes; stable files are gaftools' own conversions of the unstable ones. Region end inclusive/exclusive both accepted (DESIGN 7.3).",
        technique="TLC bounded enumeration + exhaustive region queries through gaftools view; TLC validation against Must/May node sets",
    ),
    "C08": dict(
        text="SortGaf.tla defines the sort key (anchor, BO, NO, start, reversal by scaffold majority), the strict total order Less and the two-pass machine; TLC checks Less is a strict total order, that the machine's order is accepted and the index exact on every enumerated file; gaftools sort runs on every enumerated file (all sequences = all permutations) and on seeded random files; TLC (Check_Sort.V08) decides order, stable ties, untagged-last.",
        ref="5 C08", note="Trusted: TLC, the line/BGZF readers in harness/readers.py and sort_common.line_starts, pickle. The tagged graph and the record pool are data files shared by the spec and the harness (spec/data/sort_*.json). Bounds: files of <=2 (quick) / <=3 (thorough) pool records exhaustively, random files of <=40 records, multi-block BGZF in thorough.",
        technique="TLC model checking of SortGaf.tla + replay of every enumerated file through gaftools sort; TLC validation of the output order",
    ),
    "C09": dict(
        text="Same runs; TLC (Check_Sort.V09) decides that the output is a permutation of the input lines (exact prefix match), that exactly three fields are appended and that bo/sn/iv equal the oracle (KeyBO, Sn, Iv), over plain/BGZF input and plain/--bgzip output.",
        ref="5 C09", note="Trusted: TLC, the line/BGZF readers in harness/readers.py and sort_common.line_starts, pickle. The tagged graph and the record pool are data files shared by the spec and the harness (spec/data/sort_*.json). Bounds: files of <=2 (quick) / <=3 (thorough) pool records exhaustively, random files of <=40 records, multi-block BGZF in thorough.",
        technique="TLC bounded enumeration replayed through gaftools sort; TLC validation of permutation and appended fields",
    ),
    "C10": dict(
        text="Same runs with default .gsi and --outind; the harness resolves the pickled offsets to output ordinals with its own plain/BGZF line-start table and seeks with GAF.read_line; TLC (Check_Sort.V10) decides completion, absence of 'unknown', contig set, first/last ordinals against GsiOf.",
        ref="5 C10", note="Trusted: TLC, the line/BGZF readers in harness/readers.py and sort_common.line_starts, pickle. The tagged graph and the record pool are data files shared by the spec and the harness (spec/data/sort_*.json). Bounds: files of <=2 (quick) / <=3 (thorough) pool records exhaustively, random files of <=40 records, multi-block BGZF in thorough.",
        technique="TLC model checking of the WriteRecord/Finish machine + TLC validation of the resolved .gsi against GsiOf",
    ),
    "C19": dict(
        text="Stat.tla gives the report as a declarative function of the file (exact rationals) and the run_stat loop as a machine; TLC checks the machine against the definition on every prefix and permutation invariance on every enumerated file; gaftools stat (with/without --cigar, plain/BGZF) runs on every enumerated file and seeded random files; TLC (Check_Stat) decides each printed figure (averages within half a unit of the last printed digit).",
        ref="5 C19", note="Trusted: TLC, the report regexes in harness/props/c19.py. Pool: spec/data/stat_pool.json. Bounds: files <=3/4 pool records exhaustively, random files <=12 records with denominators dividing 10000.",
        technique="TLC model checking of Stat.tla (loop vs definition, permutation invariance) + replay through gaftools stat; TLC validation of the printed report",
    ),
    "C20": dict(
        text="Phase.tla gives the admissible annotations of a read from the haplotag TSV and the first-row-wins loop as a machine (checked against the declarative set); gaftools phase runs on every enumerated (TSV, file) and random combinations; TLC (Check_Phase) decides one-record-per-record, 12 columns incl. strand, optional fields unchanged and well-formed, exactly one ps:Z/ht:Z from the TSV. A quarter of the cases whose table lists a read with conflicting rows are run again under three other hash seeds and must give the same bytes.",
        ref="5 C20", note="Trusted: TLC, the line splitter. Pool: spec/data/phase_pool.json. Any row of a read listed several times is accepted (DESIGN 7.3).",
        technique="TLC model checking of Phase.tla + replay through gaftools phase; TLC validation of every output line",
    ),
    "C16": dict(
        text="GafRecord.tla defines what re-serialisation must preserve (sequence of <tag,type,value> minus cg/ds, nothing invented) and generates every optional-field list within the bound (all six SAM types, punctuation alphabet, repeated tags, cg absent/at every position); every generated record goes through view --node, view --format (both directions), view --node --format and realign; TLC (Check_Tags) decides each re-emitted record. One known finding (D16, repeated tags) is listed in known_findings.json by its specific clause.",
        ref="5 C16", note="Trusted: TLC, the field splitter (split at the first two colons). Bounds: first field exhaustive over values of length <=2 (quick) / <=3 (thorough), second field from a representative set; no tabs, no CRLF, no repeated cg.",
        technique="TLC bounded enumeration of GafRecord field lists replayed through every re-emitting command; TLC validation of tag sequences",
    ),
    "C12": dict(
        text="Align.tla is the alignment automaton over (read position, path position); TLC uses it generatively (every slice of walks with forward/reverse steps, every read within the edit bound, checked valid by construction) and as the validator: every CIGAR written by gaftools realign is replayed through the automaton against the read slice and the spelled path slice, match count and block length are recomputed from it, and its gap-affine cost is compared with the input CIGAR's; seeded random reads add substitutions, short indels and >=60 bp insertion/deletion pairs; the 60,001-base pass-through is checked.",
        ref="5 C12, App. A.4", note="Trusted: TLC, pysam FASTA fetch used by gaftools itself, harness FASTA/GAF writers. Penalties assumed to be pywfa's defaults (4/6/2). Bounds: slices <=5/6 bases, <=1/2 edits exhaustively; random reads up to ~1.2 kb.",
        technique="TLC generative enumeration with the alignment automaton + TLC replay of every emitted CIGAR through the same automaton",
    ),
    "C06": dict(
        text="BubbleChain.tla generates chromosomes with a chain grammar and checks the construction against RGFA.Decomp (scaffold nodes = articulation points, bubbles = blocks minus articulation points); gaftools order_gfa runs on every generated graph in base / shuffled / reversed+gz / stale-tag variants, for every chromosome order and under other hash seeds; TLC (Check_Chain.V06) decides BO strictly increasing along the reference, NO = 0 / lexicographic 1..M (LexLess defined in TLA+), disjoint ordered chromosome ranges and independence from line order, stale tags and hash seed.",
        ref="5 C06", note="Trusted: TLC, the GFA/CSV splitters, Python's sorted() only through the TLA+ LexLess definition it is compared with. The generator's chain structure is itself checked against the declarative decomposition (ConstructionOK) on the single-chromosome configs. Bounds: chains of <=2 (quick) / <=3 (thorough) units exhaustively over 6 bubble kinds and 2 end kinds, all pairs (thorough: triples) of short chromosomes, one 6-unit pattern for long chains (BO >= 10).",
        technique="TLC model checking of the chain generator against declarative block decomposition + replay through gaftools order_gfa; TLC validation of BO/NO",
    ),
    "C07": dict(
        text="The same graphs decorated (extra S/L tags incl. ':' in Z values, overlaps, links declared from the other end, self-link, H/P/W/comment records) are run through order_gfa with/without --by-chrom, --with-sequence, gz input, and through GFA.write_gfa twice; TLC (Check_Chain.V07) decides segments, sequences, tags (+BO/NO exactly once), canonical links with overlap and tags, multiplicity, S-before-L, (BO,NO) order, CSV content.",
        ref="5 C07", note="Trusted: TLC, the GFA/CSV splitters, Python's sorted() only through the TLA+ LexLess definition it is compared with. The generator's chain structure is itself checked against the declarative decomposition (ConstructionOK) on the single-chromosome configs. Bounds: chains of <=2 (quick) / <=3 (thorough) units exhaustively over 6 bubble kinds and 2 end kinds, all pairs (thorough: triples) of short chromosomes, one 6-unit pattern for long chains (BO >= 10).",
        technique="TLC bounded enumeration replayed through order_gfa and GFA load/write; TLC validation of graph equality modulo link orientation",
    ),
    "C18": dict(
        text="The generator adds defects (branching tip on a middle scaffold node; three articulation points on one cycle, with/without inner node) to any subset of chromosomes; for every chromosome order order_gfa runs with the defective chromosomes requested and, as reference, without them; TLC (Check_Chain.V18) decides completion, C06 on the good chromosomes, nothing written or tagged for the skipped ones, and tag/file equality with the reference run.",
        ref="5 C18", note="Trusted: TLC, the GFA/CSV splitters, Python's sorted() only through the TLA+ LexLess definition it is compared with. The generator's chain structure is itself checked against the declarative decomposition (ConstructionOK) on the single-chromosome configs. Bounds: chains of <=2 (quick) / <=3 (thorough) units exhaustively over 6 bubble kinds and 2 end kinds, all pairs (thorough: triples) of short chromosomes, one 6-unit pattern for long chains (BO >= 10). Chromosomes joined through a haplotype node are not generated yet.",
        technique="TLC bounded enumeration of defective multi-chromosome graphs + differential replay through order_gfa; TLC validation",
    ),
    "C17": dict(
        text="Storage.tla models plain byte offsets and BGZF virtual offsets (blocks, both representations of a block boundary) and TLC checks ReadLine(Seek(Tell-before-line-i)) = line i for every small file and block size; seeded sessions are pushed through every GAF/graph-consuming command under {plain, multi-block BGZF} x {gfa, gfa.gz}, stored offsets (.gvi, .gsi) are resolved by seeking the real files, and TLC (Check_Same) decides that the four abstract results agree; one path is used again after its compression changed (plain, BGZF, plain, BGZF). The per-command oracles are the other properties' checks, which also alternate storage configurations.",
        ref="5 C17, 4.3", note="Trusted: TLC, the harness BGZF writer/walker (stdlib zlib/struct). Quick uses 400-byte BGZF blocks (every record straddles blocks), thorough adds 64 KiB-scale blocks with padded records. Output file names are not compared.",
        technique="TLC model checking of Storage.tla + differential replay of all commands over the storage matrix; TLC validation of agreement",
    ),
}
