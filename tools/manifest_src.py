HOOK_COMMITS = []
NOTES = "See DESIGN.md. Exit codes: 0 held / 1 violation (VIOLATION line) / 2 machinery failure."
NOT_APPLICABLE = {}
CHECKS = {
    "C14": dict(
        text="TLC enumerates every graph of the bounded GfaStore model (all link orientation combinations, self-links, links declared from either end) and checks the walk-reversal law on the spec; every graph is written as GFA, loaded by gaftools, and ALL step lists up to length 3 are run through GFA.extract_path and `gaftools find_path`; TLC (Check_C14) decides every result against RGFA.IsWalk/Spell. Exhaustive within the bound, not a proof beyond it.",
        ref="5 C14",
        note="Trusted: TLC, the TLA+ value parser, the GFA writer in harness/props/c14.py. Bounded: <=2 nodes/<=2 links (quick), <=3 nodes/<=3 links (thorough), step lists <=3, alphabet ACGTN.",
        technique="TLC bounded enumeration of GfaStore states replayed into gaftools; results validated by TLC against RGFA.IsWalk/Spell",
    ),
}
