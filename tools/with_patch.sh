#!/bin/sh
# usage: tools/with_patch.sh <patch.diff> <command...>   apply patch to /repo, run command, always revert
P="$1"; shift
git -C /repo diff --quiet || { echo "/repo has uncommitted changes" >&2; exit 2; }
git -C /repo apply "$P" || exit 2
"$@"; rc=$?
git -C /repo checkout -- . 
exit $rc
